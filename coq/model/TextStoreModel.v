(* C13 model of the MEMORY that holds item text and of the code that hands it to the display:
   util/chars.go (two representations, ToRunes, CopyRunes, Lines), Terminal.itemLines (terminal.go) and the Go slice
   semantics these rely on.

   A Go backing array is a cell of an append-only store, addressed by its position; its length is its capacity and
   never changes.  A slice is (cell, offset, length); its capacity is what is left of the cell after the offset.
   s[i:j] keeps the cell; append writes IN PLACE while the capacity lasts and allocates otherwise (the growth slack Go
   adds on allocation is not modelled: a fresh array is held by nobody else, the harness appends with exact growth).
   Sharing is therefore explicit: if Lines handed out a slice of the item's own cell, a write by the renderer
   (append(line[:n], ellipsis...) in printHighlighted) would change what the matcher reads.

   `copying` = true is the code as it is (Lines / itemLines copy the text first); false keeps the alias and survives as a
   refuted witness in Properties/C13.v. *)
From Fzf Require Import Prelude.
Open Scope nat_scope.

Definition tcell := list Z.
Definition tmem := list tcell.
Record slice := mkSl { sl_cell : nat; sl_off : nat; sl_len : nat }.

Definition mem_alloc (m : tmem) (c : tcell) : tmem * nat := (m ++ [c], length m).

Definition sl_cap (m : tmem) (s : slice) : res nat :=
  do c <- get m (sl_cell s);
  if sl_off s + sl_len s <=? length c then Ok (length c - sl_off s) else Err OutOfRange.

Definition sl_read (m : tmem) (s : slice) : res (list Z) :=
  do c <- get m (sl_cell s);
  if sl_off s + sl_len s <=? length c then Ok (firstn (sl_len s) (skipn (sl_off s) c)) else Err OutOfRange.

(* s[i:j], 0 <= i <= j <= cap(s); anything else panics in Go *)
Definition sl_sub (m : tmem) (s : slice) (i j : nat) : res slice :=
  do cap <- sl_cap m s;
  if ((i <=? j) && (j <=? cap))%bool then Ok (mkSl (sl_cell s) (sl_off s + i) (j - i)) else Err Panic.

Definition cell_write (c : tcell) (pos : nat) (xs : list Z) : tcell :=
  firstn pos c ++ xs ++ skipn (pos + length xs) c.

(* append(s, xs...) *)
Definition sl_append (m : tmem) (s : slice) (xs : list Z) : res (tmem * slice) :=
  do cap <- sl_cap m s;
  if sl_len s + length xs <=? cap then
    do c <- get m (sl_cell s);
    do m' <- set_nth m (sl_cell s) (cell_write c (sl_off s + sl_len s) xs);
    Ok (m', mkSl (sl_cell s) (sl_off s) (sl_len s + length xs))
  else
    do old <- sl_read m s;
    let (m', id) := mem_alloc m (old ++ xs) in Ok (m', mkSl id 0 (length old + length xs)).

(* s[i] = x *)
Definition sl_set (m : tmem) (s : slice) (i : nat) (x : Z) : res tmem :=
  do c <- get m (sl_cell s);
  if ((i <? sl_len s) && (sl_off s + sl_len s <=? length c))%bool then set_nth m (sl_cell s) (cell_write c (sl_off s + i) [x])
  else Err Panic.

(* make([]rune, len(src)); copy(dst, src) *)
Definition copy_runes (m : tmem) (src : slice) : res (tmem * slice) :=
  do t <- sl_read m src;
  let (m', id) := mem_alloc m t in Ok (m', mkSl id 0 (length t)).

(* a nil slice: no backing array, capacity 0 *)
Definition nil_slice (m : tmem) : tmem * slice := let (m', id) := mem_alloc m [] in (m', mkSl id 0 0).

(* ---------------------------------------------------------------- util.Chars *)

(* inBytes: the cell holds bytes (all < 128, each is its own rune); otherwise runes *)
Record chars := mkChars { ch_bytes : bool; ch_sl : slice }.

Definition chars_length (ch : chars) : nat := sl_len (ch_sl ch).
Definition chars_text (m : tmem) (ch : chars) : res (list Z) := sl_read m (ch_sl ch).   (* ToString, as runes *)

(* ToRunes: the rune representation is returned AS IS (an alias of the item's own array);
   the byte representation is converted into a fresh array *)
Definition chars_to_runes (m : tmem) (ch : chars) : res (tmem * slice) :=
  if ch_bytes ch then copy_runes m (ch_sl ch) else Ok (m, ch_sl ch).

(* text := make([]rune, chars.Length()); copy(text, chars.ToRunes()) -- or, not copying, text := chars.ToRunes() *)
Definition owned_text (copying : bool) (m : tmem) (ch : chars) : res (tmem * slice) :=
  do r <- chars_to_runes m ch;
  let (m1, rs) := r in
  if copying then copy_runes m1 rs else Ok (m1, rs).

(* the multi-line loop of Lines over the text: segments (from, to) that end with their '\n', and where the rest begins;
   stops as soon as maxLines lines have been collected *)
Fixpoint split_lines (t : list Z) (off from nlines : nat) (maxLines : Z) : list (nat * nat) * nat :=
  match t with
  | [] => ([], from)
  | x :: r =>
      if (x =? 10)%Z then
        if (Z.of_nat (S nlines) >=? maxLines)%Z then ([(from, S off)], S off)
        else let (l, f) := split_lines r (S off) (S off) (S nlines) maxLines in ((from, S off) :: l, f)
      else split_lines r (S off) from nlines maxLines
  end.

Fixpoint sub_all (m : tmem) (s : slice) (segs : list (nat * nat)) : res (list slice) :=
  match segs with
  | [] => Ok []
  | (a, b) :: r => do x <- sl_sub m s a b; do xs <- sub_all m s r; Ok (x :: xs)
  end.

Section Lines.
  (* util.RunesWidth(line, 0, tabstop, cols): the index at which the display width first exceeds cols, if it does.
     A parameter: nothing proved below depends on how wide a character is. *)
  Variable ovf : list Z -> Z -> Z -> option nat.

  (* the inner `for` of the wrapping part: returns the memory, the lines collected so far and whether Lines returns
     at once (`return wrapped, true`) *)
  Fixpoint wrap_line (fuel : nat) (m : tmem) (line : slice) (newline hasSign : bool) (wrapped : list slice)
           (maxLines wrapCols signW tabstop : Z) : res (tmem * list slice * bool) :=
    match fuel with
    | O => Err OutOfFuel
    | S fuel =>
        let cols := if hasSign then (wrapCols - signW)%Z else wrapCols in
        do t <- sl_read m line;
        match ovf t cols tabstop with
        | Some oi0 =>
            let oi := if oi0 =? 0 then 1 else oi0 in          (* might be a wide character *)
            if (Z.of_nat (length wrapped) >=? maxLines)%Z then Ok (m, wrapped, true)
            else
              do a <- sl_sub m line 0 oi;
              do b <- sl_sub m line oi (sl_len line);
              wrap_line fuel m b newline true (wrapped ++ [a]) maxLines wrapCols signW tabstop
        | None =>
            do r <- (if newline then sl_append m line [10%Z] else Ok (m, line));   (* restore the trailing '\n' *)
            let (m', line') := r in
            if (Z.of_nat (length wrapped) >=? maxLines)%Z then Ok (m', wrapped, true)
            else Ok (m', wrapped ++ [line'], false)
        end
    end.

  Fixpoint wrap_all (m : tmem) (lines : list slice) (wrapped : list slice) (maxLines wrapCols signW tabstop : Z)
    : res (tmem * list slice * bool) :=
    match lines with
    | [] => Ok (m, wrapped, false)
    | line :: rest =>
        do t <- sl_read m line;
        let newline := match rev t with x :: _ => (x =? 10)%Z | [] => false end in
        do line1 <- (if newline then sl_sub m line 0 (sl_len line - 1) else Ok line);
        do r <- wrap_line (sl_len line + 2) m line1 newline false wrapped maxLines wrapCols signW tabstop;
        let '(m', wrapped', stop) := r in
        if stop then Ok (m', wrapped', true) else wrap_all m' rest wrapped' maxLines wrapCols signW tabstop
    end.

  (* Chars.Lines(multiLine, maxLines, wrapCols, wrapSignWidth, tabstop) *)
  Definition chars_lines (copying : bool) (m : tmem) (ch : chars) (multiLine : bool)
             (maxLines wrapCols signW tabstop : Z) : res (tmem * list slice * bool) :=
    do r <- owned_text copying m ch;
    let (m1, text) := r in
    do r2 <-
      (if negb multiLine then Ok (m1, [text], false)
       else
         do t <- sl_read m1 text;
         let (segs, from) := split_lines t 0 0 0 maxLines in
         do ls <- sub_all m1 text segs;
         if (Z.of_nat (length ls) >=? maxLines)%Z then Ok (m1, ls, true)
         else if from <? sl_len text then do last <- sl_sub m1 text from (sl_len text); Ok (m1, ls ++ [last], false)
         else let (m2, nl) := nil_slice m1 in Ok (m2, ls ++ [nl], false));
    let '(m2, lines, overflow) := r2 in
    if (wrapCols =? 0)%Z then Ok (m2, lines, overflow)
    else
      do w <- wrap_all m2 lines [] maxLines wrapCols signW tabstop;
      let '(m3, wrapped, stop) := w in
      Ok (m3, wrapped, if stop then true else overflow).

  (* Terminal.itemLines: the plain single-line list copies the text itself, everything else goes through Lines
     (t.wrapCols() is 0 unless wrapping is on) *)
  Definition item_lines (copying : bool) (m : tmem) (ch : chars) (wrap multiLine : bool)
             (atMost wrapCols signW tabstop : Z) : res (tmem * list slice * bool) :=
    if (negb wrap && negb multiLine)%bool then
      do r <- owned_text copying m ch; let (m1, text) := r in Ok (m1, [text], false)
    else chars_lines copying m ch multiLine atMost (if wrap then wrapCols else 0%Z) signW tabstop.
End Lines.

(* ---------------------------------------------------------------- whoever holds the lines: a program over slices *)

(* What a holder of the returned lines can do with them in Go, short of unsafe: re-slice, append, append another
   slice, assign an element.  Registers are the slices it holds; a new slice is pushed at the end.
   Operands are reduced modulo what is legal, so that no program panics (the harness does the same arithmetic
   on the real len/cap). *)
Inductive pop :=
| PSub (r a b : nat)          (* push regs[r][i:j] with i = a mod (cap+1), j = i + b mod (cap-i+1) *)
| PApp (r : nat) (xs : list Z)  (* push append(regs[r], xs...) *)
| PAppS (r q : nat)           (* push append(regs[r], regs[q]...) *)
| PSet (r a : nat) (x : Z).   (* regs[r][a mod len] = x when len > 0 *)

Definition reg (regs : list slice) (r : nat) : res slice :=
  match regs with [] => Err BadInput | _ => get regs (r mod length regs) end.

Definition pstep (m : tmem) (regs : list slice) (o : pop) : res (tmem * list slice) :=
  match o with
  | PSub r a b =>
      do s <- reg regs r; do cap <- sl_cap m s;
      let i := a mod (cap + 1) in let j := i + b mod (cap - i + 1) in
      do s' <- sl_sub m s i j; Ok (m, regs ++ [s'])
  | PApp r xs =>
      do s <- reg regs r; do x <- sl_append m s xs; Ok (fst x, regs ++ [snd x])
  | PAppS r q =>
      do s <- reg regs r; do s2 <- reg regs q; do xs <- sl_read m s2;
      do x <- sl_append m s xs; Ok (fst x, regs ++ [snd x])
  | PSet r a x =>
      do s <- reg regs r;
      if sl_len s =? 0 then Ok (m, regs) else do m' <- sl_set m s (a mod sl_len s) x; Ok (m', regs)
  end.

Fixpoint prun (m : tmem) (regs : list slice) (p : list pop) : res (tmem * list slice) :=
  match p with
  | [] => Ok (m, regs)
  | o :: r => match regs with
              | [] => Ok (m, regs)     (* nothing to work on *)
              | _ => do x <- pstep m regs o; prun (fst x) (snd x) r
              end
  end.

(* ---------------------------------------------------------------- concrete width function used on the wire *)

(* valid for texts in which every rune is its own grapheme cluster: tab stops, '\n' one column, the classic
   double-width blocks two, everything else one *)
Definition wide (r : Z) : bool :=
  ((4352 <=? r) && (r <=? 4447) || (11904 <=? r) && (r <=? 42191) || (44032 <=? r) && (r <=? 55203)
   || (63744 <=? r) && (r <=? 64255) || (65072 <=? r) && (r <=? 65135) || (65280 <=? r) && (r <=? 65376)
   || (65504 <=? r) && (r <=? 65510))%Z%bool.

Fixpoint simple_ovf_from (t : list Z) (idx : nat) (width limit tabstop : Z) : option nat :=
  match t with
  | [] => None
  | r :: rest =>
      let w := (if r =? 9 then tabstop - width mod tabstop else if wide r then 2 else 1)%Z in
      if (width + w >? limit)%Z then Some idx else simple_ovf_from rest (S idx) (width + w)%Z limit tabstop
  end.
Definition simple_ovf (t : list Z) (cols tabstop : Z) : option nat := simple_ovf_from t 0 0%Z cols tabstop.
