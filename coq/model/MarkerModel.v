(* C17 model, part 4: src/options.go parseMarkerMultiLine, after the value has been cut into grapheme clusters
   (uniseg.NewGraphemes) and each cluster measured (uniseg.StringWidth) — both are an input here.
   result is a [3]string: result[idx] is a checked access (Err = the Go code would panic with index out of range). *)
From Fzf Require Import Prelude Val BindModel MarkerSpec.
Open Scope Z_scope.

Definition E_MARKER_WIDTH : Z := 16.

(* for _, part := range parts { expected -= width(part); result[idx] += part;
                               if expected <= 0 { idx++; expected = totalWidth / 3 }; if idx == 3 { break } } *)
Fixpoint mm_loop (parts : list cluster) (unit : Z) (expected : Z) (idx : nat) (result : list (list cluster))
  : res (list (list cluster)) :=
  match parts with
  | [] => Ok result
  | p :: r =>
      let expected := expected - Z.of_nat (snd p) in
      do cur <- get result idx;
      do result <- set_nth result idx (cur ++ [p]);
      let '(idx, expected) := if expected <=? 0 then (S idx, unit) else (idx, expected) in
      if Nat.eqb idx 3 then Ok result else mm_loop r unit expected idx result
  end.

Definition marker_multi (cs : list cluster) : res (outcome (list (list cluster))) :=
  match cs with
  | [] => Ok (Good [[]; []; []])                                   (* str == "" *)
  | _ =>
      let total := widths cs in
      if negb (Nat.eqb total 3 || Nat.eqb total 6) then Ok (Bad E_MARKER_WIDTH)
      else
        let unit := Z.of_nat (total / 3) in
        do r <- mm_loop cs unit unit 0 [[]; []; []];
        Ok (Good r)
  end.
