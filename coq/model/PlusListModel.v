(* C12 model, part 2: what the running finder does around replacePlaceholder (src/terminal.go):
     hasPreviewFlags, Terminal.buildPlusList, and the pair  buildPlusList ; Terminal.replacePlaceholder  that
     executeCommand (execute, execute-silent, execute-multi, the transform actions), the preview path, become and reload run
     on a command template.
   The finder's state, as far as an expansion can see it, is the item under the cursor (None: empty list) and the
   selected items in selection order (what sortSelected returns).
   No proofs in this file. *)
From Fzf Require Import Prelude ShellSpec PlaceholderModel.
Open Scope Z_scope.

(* parsePlaceholder's forceUpdate flag: a {fzf:...} placeholder, or a 'q' among the characters after the brace *)
Definition force_update_of (m : str) : bool :=
  if has_prefix s_fzf_colon m then true else existsb (Z.eqb 113) (tl m).

Definition plus_of (m : str) : bool :=
  match parse_placeholder m with Ok (fl, _) => f_plus fl | Err _ => false end.

(* hasPreviewFlags: (slot, plus, forceUpdate) over the live placeholders of the template; escaped ones are skipped *)
Fixpoint preview_flags (ps : list piece) : bool * bool * bool :=
  match ps with
  | [] => (false, false, false)
  | PPh m :: r => let '(_, pl, fu) := preview_flags r in (true, plus_of m || pl, force_update_of m || fu)
  | _ :: r => preview_flags r
  end.
Definition has_preview_flags (template : str) : bool * bool * bool := preview_flags (scan template O []).

Definition min_item : item := (min_int32, []).     (* minItem: empty text, index math.MinInt32 *)

Definition opt_items (cur : option item) : list item := match cur with Some c => [c] | None => [] end.

(* buildPlusList.  The Go function returns (valid, allItems) with allItems[0] = current (or nil) and allItems[1:] = the
   selection (or [nil]); the model returns what replacePlaceholder makes of them: allItems[:1] and allItems[1:] with a
   leading nil meaning "none". *)
Definition build_plus_list (template : str) (force_plus : bool) (cur : option item) (sel : list item)
  : bool * (list item * list item) :=
  let '(slot, plus, fu) := has_preview_flags template in
  if negb (negb slot || fu || ((force_plus || plus) && negb (Nat.eqb (length sel) 0))) then
    (* return current != nil, []*Item{current, current} *)
    (match cur with Some _ => true | None => false end, (opt_items cur, opt_items cur))
  else
    let c := match cur with Some c => c | None => min_item end in
    (true, ([c], match sel with [] => [c] | _ => sel end)).

Definition with_items (p : params) (c s : list item) : params :=
  mkP (p_delim p) (p_printsep p) (p_force_plus p) (p_query p) c s (p_action p) (p_prompt p) (p_fish p).

(* valid, list := t.buildPlusList(template, forcePlus); command, tempFiles := t.replacePlaceholder(template, forcePlus, input, list)
   p_current / p_selected of p are ignored: the items come from the finder's state *)
Definition terminal_expand (p : params) (cur : option item) (sel : list item) (template : str) (temps : list str)
  : res (bool * (str * list str)) :=
  let '(valid, (c, s)) := build_plus_list template (p_force_plus p) cur sel in
  do x <- replace_placeholder (with_items p c s) template temps;
  Ok (valid, x).

(* the files one piece of a template writes when it is expanded on its own (the name of the file does not matter) *)
Definition own_files (p : params) (pc : piece) : res (list str) :=
  match pc with
  | PPh m => do y <- expand_ph p m [[]]; Ok (snd (fst y))
  | _ => Ok []
  end.
