(* Model of src/pattern.go (whole-line matching, no --nth): BuildPattern's trimming and --no-extended
   path, parseTerms line by line, extendedMatch / basicMatch / iter / MatchItem.  Structured like the
   code; every slice is checked.  The matchers are those of AlgoModel.  No proofs here. *)
From Fzf Require Import Prelude AlgoSpec AlgoModel QuerySpec.
Open Scope Z_scope.

Inductive ttype := termFuzzy | termExact | termExactBoundary | termPrefix | termSuffix | termEqual.
Record term := mkTerm { tm_typ : ttype; tm_inv : bool; tm_text : str; tm_cs : bool; tm_nm : bool }.
Definition termSet := list term.

Record popts := mkP {
  p_fuzzy : bool;           (* opts.Fuzzy (false under --exact) *)
  p_v2 : bool;              (* opts.FuzzyAlgo = FuzzyMatchV2 (--algo=v2, the default) *)
  p_extended : bool;
  p_case : case_mode;
  p_normalize : bool;
  p_forward : bool;
  p_slabCap : option Z      (* cap(slab.I16), None for a nil slab *)
}.

Record pattern := mkPat {
  pat_opts : popts;
  pat_cs : bool; pat_nm : bool;        (* --no-extended only *)
  pat_text : str;
  pat_sets : list termSet
}.

(* what the documented options are, seen from the spec *)
Definition qopts_of (o : popts) : qopts := mkQ (p_fuzzy o) (p_extended o) (p_case o) (p_normalize o).
Definition ttype_of (k : kind) : ttype :=
  match k with KFuzzy => termFuzzy | KExact => termExact | KBoundary => termExactBoundary
             | KPrefix => termPrefix | KSuffix => termSuffix | KEqual => termEqual end.
Definition term_of (t : sterm) : term := mkTerm (ttype_of (t_kind t)) (t_inv t) (t_text t) (t_cs t) (t_nm t).

(* ---- Go string helpers (single-character arguments) ---- *)
Definition has_prefix (s : str) (c : Z) : bool := match s with x :: _ => x =? c | [] => false end.   (* strings.HasPrefix(s, "c") *)
Definition has_suffix (s : str) (c : Z) : bool := match rev s with x :: _ => x =? c | [] => false end.
Definition slice_from1 (s : str) : res str := match s with [] => Err OutOfRange | _ :: t => Ok t end.          (* s[1:] *)
Definition slice_to_last (s : str) : res str := match s with [] => Err OutOfRange | _ => Ok (removelast s) end.   (* s[:len(s)-1] *)

Section Model.
Variable co : char_ops.
Variable sc : scheme.

(* strings.ToLower / algo.NormalizeRunes on a rune string *)
Definition to_lower (s : str) : str := map (lower1 co) s.
Definition normalize_runes (s : str) : str := map (co_norm co) s.

(* strings.ReplaceAll(str, "\\ ", "\t") *)
Fixpoint replace_esc (s : str) : str :=
  match s with
  | [] => []
  | c :: r =>
      match r with
      | b :: r' => if (c =? 92) && (b =? 32) then 9 :: replace_esc r' else c :: replace_esc r
      | [] => c :: replace_esc r
      end
  end.

(* regexp.MustCompile(" +").Split(str, -1): pieces between maximal runs of blanks, empty first/last
   piece when the string starts/ends with a blank, [""] for the empty string *)
Fixpoint split_blanks (s : str) (cur : str) (inrun : bool) : list str :=
  match s with
  | [] => [rev cur]
  | c :: r =>
      if c =? 32 then (if inrun then split_blanks r [] true else rev cur :: split_blanks r [] true)
      else split_blanks r (c :: cur) false
  end.

(* strings.ReplaceAll(token, "\t", " ") *)
Definition untab (s : str) : str := map (fun c => if c =? 9 then 32 else c) s.

Definition case_sensitive (m : case_mode) (text lowerText : str) : bool :=
  match m with
  | CaseRespect => true
  | CaseSmart => negb (str_eqb text lowerText)
  | CaseIgnore => false
  end.

(* the operator-stripping part of the loop body: (typ, inv, text) *)
Definition strip_ops (fuzzy : bool) (typ : ttype) (text : str) : res (ttype * bool * str) :=
  do r1 <- (if has_prefix text 33 then do t <- slice_from1 text; Ok (termExact, true, t) else Ok (typ, false, text));
  let '(typ, inv, text) := r1 in
  do r2 <- (if negb (str_eqb text [36]) && has_suffix text 36 then do t <- slice_to_last text; Ok (termSuffix, t) else Ok (typ, text));
  let '(typ, text) := r2 in
  do r3 <- (if Nat.ltb 2 (length text) && has_prefix text 39 && has_suffix text 39 then
              do t <- slice_from1 text; do t <- slice_to_last t; Ok (termExactBoundary, t)
            else if has_prefix text 39 then
              do t <- slice_from1 text; Ok ((if fuzzy && negb inv then termExact else termFuzzy), t)
            else if has_prefix text 94 then
              do t <- slice_from1 text;
              Ok ((match typ with termSuffix => termEqual | _ => termPrefix end), t)
            else Ok (typ, text));
  let '(typ, text) := r3 in
  Ok (typ, inv, text).

(* loop variables of parseTerms *)
Record pstate := mkSt { st_sets : list termSet; st_set : termSet; st_switchSet : bool; st_afterBar : bool }.

(* one iteration of the loop over tokens; [text0] is the token with TABs turned back into blanks *)
Definition parse_step (o : popts) (st : pstate) (text0 : str) : res pstate :=
  let lowerText := to_lower text0 in
  let caseSensitive := case_sensitive (p_case o) text0 lowerText in
  let normalizeTerm := p_normalize o && str_eqb lowerText (normalize_runes lowerText) in
  let text := if caseSensitive then text0 else lowerText in
  let typ := if p_fuzzy o then termFuzzy else termExact in
  if nonemptyb (st_set st) && negb (st_afterBar st) && str_eqb text [124]
  then Ok (mkSt (st_sets st) (st_set st) false true)                                  (* continue *)
  else
    do r <- strip_ops (p_fuzzy o) typ text;
    let '(typ, inv, text) := r in
    if nonemptyb text then
      let '(sets, set) := if st_switchSet st then (st_sets st ++ [st_set st], []) else (st_sets st, st_set st) in
      let textRunes := if normalizeTerm then normalize_runes text else text in
      Ok (mkSt sets (set ++ [mkTerm typ inv textRunes caseSensitive normalizeTerm]) true false)
    else Ok (mkSt (st_sets st) (st_set st) (st_switchSet st) false).

Fixpoint parse_loop (o : popts) (toks : list str) (st : pstate) : res (list termSet) :=
  match toks with
  | [] => Ok (if nonemptyb (st_set st) then st_sets st ++ [st_set st] else st_sets st)
  | token :: rest => do st' <- parse_step o st (untab token); parse_loop o rest st'
  end.

Definition parse_terms (o : popts) (s : str) : res (list termSet) :=
  parse_loop o (split_blanks (replace_esc s) [] false) (mkSt [] [] false false).

(* BuildPattern: trimming under extended mode *)
Definition trim_left_m (s : str) : str := drop_while (fun c => c =? 32) s.     (* strings.TrimLeft(s, " ") *)
Fixpoint trim_right_m (fuel : nat) (s : str) : res str :=
  (* for strings.HasSuffix(s, " ") && !strings.HasSuffix(s, "\\ ") { s = s[:len(s)-1] } *)
  match fuel with
  | O => Err OutOfFuel
  | S fuel' =>
      let r := rev s in
      let sp := match r with c :: _ => c =? 32 | [] => false end in
      let esc := match r with c :: b :: _ => (c =? 32) && (b =? 92) | _ => false end in
      if sp && negb esc then do s' <- slice_to_last s; trim_right_m fuel' s' else Ok s
  end.

Definition build_pattern (o : popts) (q : str) : res pattern :=
  if p_extended o then
    do s <- trim_right_m (S (length q)) (trim_left_m q);
    do sets <- parse_terms o s;
    Ok (mkPat o true (p_normalize o) s sets)
  else
    let lowerString := to_lower q in
    let normalize := p_normalize o && str_eqb lowerString (normalize_runes lowerString) in
    let caseSensitive := case_sensitive (p_case o) q lowerString in
    Ok (mkPat o caseSensitive normalize (if caseSensitive then q else lowerString) []).

(* ---- matching ---- *)

(* procFun[typ] applied to the whole line (one token, prefixLength 0) = iter *)
Definition run_algo (o : popts) (typ : ttype) (cs nm : bool) (line pat : str) (withPos : bool) : res mres :=
  let isb := is_ascii line in      (* util.ToChars keeps bytes iff every byte < 0x80 *)
  match typ with
  | termFuzzy =>
      if p_v2 o then fuzzy_v2 co sc cs nm (p_forward o) isb line pat withPos (p_slabCap o)
      else fuzzy_v1 co sc cs nm (p_forward o) isb line pat withPos
  | termExact => exact_match co sc cs nm (p_forward o) false isb line pat
  | termExactBoundary => exact_match co sc cs nm (p_forward o) true isb line pat
  | termPrefix => prefix_match co sc cs nm line pat
  | termSuffix => suffix_match co sc cs nm line pat
  | termEqual => equal_match co sc cs nm line pat
  end.

Fixpoint range_nat (s : nat) (n : nat) : list nat := match n with O => [] | S n' => s :: range_nat (S s) n' end.

Definition add_pos (withPos : bool) (allPos : list nat) (s e : nat) (pos : option (list nat)) : list nat :=
  if withPos then match pos with Some p => allPos ++ p | None => allPos ++ range_nat s (e - s) end else allPos.

(* one termSet of extendedMatch: (matched offset+score if any, allPos) *)
Fixpoint match_set (o : popts) (terms : termSet) (line : str) (withPos : bool)
         (cur : option (nat * nat * Z)) (allPos : list nat) : res (option (nat * nat * Z) * list nat) :=
  match terms with
  | [] => Ok (cur, allPos)
  | t :: r =>
      do m <- run_algo o (tm_typ t) (tm_cs t) (tm_nm t) line (tm_text t) withPos;
      match m with
      | Match s e score pos =>
          if tm_inv t then match_set o r line withPos cur allPos                       (* continue *)
          else Ok (Some (s, e, score), add_pos withPos allPos s e pos)                  (* break *)
      | NoMatch =>
          if tm_inv t then match_set o r line withPos (Some (O, O, 0)) allPos          (* Offset{0,0}, matched *)
          else match_set o r line withPos cur allPos
      end
  end.

Fixpoint extended_match (o : popts) (sets : list termSet) (line : str) (withPos : bool)
         (offsets : list (nat * nat)) (total : Z) (allPos : list nat) : res (list (nat * nat) * Z * list nat) :=
  match sets with
  | [] => Ok (offsets, total, allPos)
  | ts :: r =>
      do x <- match_set o ts line withPos None allPos;
      let '(cur, allPos') := x in
      match cur with
      | Some (s, e, score) => extended_match o r line withPos (offsets ++ [(s, e)]) (total + score) allPos'
      | None => extended_match o r line withPos offsets total allPos'
      end
  end.

(* observable result of MatchItem: offsets, score, positions (when requested) *)
Definition mitem := (list (nat * nat) * Z * option (list nat))%type.

Definition match_item (p : pattern) (line : str) (withPos : bool) : res (option mitem) :=
  let o := pat_opts p in
  if p_extended o then
    do x <- extended_match o (pat_sets p) line withPos [] 0 [];
    let '(offsets, total, allPos) := x in
    if Nat.eqb (length offsets) (length (pat_sets p))
    then Ok (Some (offsets, total, if withPos then Some allPos else None))
    else Ok None
  else
    do m <- run_algo o (if p_fuzzy o then termFuzzy else termExact) (pat_cs p) (pat_nm p) line (pat_text p) withPos;
    match m with
    | Match s e score pos => Ok (Some ([(s, e)], score, pos))
    | NoMatch => Ok None
    end.

Definition matches (o : popts) (q line : str) : res bool :=
  do p <- build_pattern o q;
  do m <- match_item p line false;
  Ok (match m with Some _ => true | None => false end).

(* the filter: lines kept, in input order *)
Fixpoint filter_model (p : pattern) (lines : list str) : res (list str) :=
  match lines with
  | [] => Ok []
  | l :: r =>
      do m <- match_item p l false;
      do r' <- filter_model p r;
      Ok (match m with Some _ => l :: r' | None => r' end)
  end.

End Model.
