(* C17 model, part 2: src/options.go parseOptions (the loop over one argument vector with
   nextString / optionalNextString / nextInt / optionalNumeric / nextDirs, the "--opt=value"
   split, the attached short forms -qX -fX -dX -nX -sX -mX, the end-of-vector validation) and
   ParseOptions (options file, $FZF_DEFAULT_OPTS, command line, default scheme) restated for
   the options listed in `opt_table`.  Options outside the table are NOT modelled (the model
   answers "unknown option"; the harness never compares such vectors, it only fuzzes them).
   The file system and the terminal are an environment record: isdir (os.Stat), histok
   (NewHistory can read or create the file), tty (stdin is a terminal).
   Err = the Go code would panic; Ok (Bad _) = it returns an error (fzf exits with status 2).
   Positions: parseOptions(index *int, ...) numbers the words of the three sources consecutively (startIndex := *index;
   index := i + startIndex; *index += len(allArgs)); --tmux and --height store the position at which they were read
   (tmuxOptions.index, heightSpec.index) and fzf.Run starts the popup iff Tmux != nil && Tmux.index >= Height.index. *)
From Coq Require Import String.
From Fzf Require Import Prelude Val BindSpec BindModel OptionSpec.
Open Scope Z_scope.

Definition E_UNKNOWN_OPTION : Z := 10.
Definition E_VALUE_REQUIRED : Z := 11.
Definition E_BAD_VALUE : Z := 12.
Definition E_UNEXPECTED_VALUE : Z := 13.
Definition E_VALIDATION : Z := 14.
Definition E_HISTORY : Z := 15.

Record cfg := mkCfg { fv : field -> val; kmap : keymap; expect : list key }.

Definition setf (f : field) (v : val) (c : cfg) : cfg :=
  mkCfg (fun g => if Nat.eqb g f then v else fv c g) (kmap c) (expect c).
Fixpoint setfs (ws : list (field * val)) (c : cfg) : cfg :=
  match ws with
  | [] => c
  | (f, v) :: r => setfs r (setf f v c)
  end.

Record env := mkEnv { isdir : str -> bool; histok : str -> bool; tty : bool }.

(* ---------------------------------------------------------------- value parsers *)

Inductive pid := PStr | PSomeStr | PInt | PPosInt | PAlgo | PScheme | PTiebreak | PNth | PNthT | PDelim
               | PLayout | PHeight | PLines | PWalker | PSkip.

Fixpoint mem_z (x : Z) (l : list Z) : bool := match l with [] => false | y :: r => (x =? y) || mem_z x r end.

(* parseTiebreak *)
Fixpoint tb_loop (toks : list str) (crit seen : list Z) (has_index : bool) : option (list Z) :=
  match toks with
  | [] => Some crit
  | t :: r =>
      match assoc_str t crit_names with
      | None => None                                            (* invalid sort criterion *)
      | Some id =>
          if mem_z id seen then None                            (* duplicate sort criteria *)
          else if has_index then None                           (* index should be the last criterion *)
          else if id =? -1 then tb_loop r crit (id :: seen) true
          else tb_loop r (crit ++ [id]) (id :: seen) false
      end
  end.
Definition parse_tiebreak (s : str) : option (list Z) :=
  match tb_loop (split_on COMMA (to_lower s)) [0] [] false with
  | Some crit => if Nat.ltb 4 (length crit) then None else Some crit
  | None => None
  end.

(* tokenizer.go ParseRange; rangeEllipsis = 0 *)
Definition DOT : Z := 46.
Fixpoint find_dotdot (cur : str) (s : str) : option (str * str) :=
  match s with
  | c1 :: ((c2 :: t) as t1) => if (c1 =? DOT) && (c2 =? DOT) then Some (rev cur, t) else find_dotdot (c1 :: cur) t1
  | _ => None
  end.
Definition nonzero (o : option Z) : option Z := match o with Some 0 => None | x => x end.
Definition new_range (bg e : Z) : Z * Z :=
  (if (bg =? 1) && negb (e =? 1) then 0 else bg, if e =? -1 then 0 else e).
Definition parse_range (s : str) : option (Z * Z) :=
  if str_eqb s [DOT; DOT] then Some (new_range 0 0)
  else if has_prefix [DOT; DOT] s then
    match nonzero (atoi (skipn 2 s)) with Some e => Some (new_range 0 e) | None => None end
  else if has_suffix [DOT; DOT] s then
    match nonzero (atoi (firstn (length s - 2) s)) with Some bg => Some (new_range bg 0) | None => None end
  else match find_dotdot [] s with
       | Some (a, r) =>
           match find_dotdot [] r with
           | Some _ => None                                      (* more than two parts *)
           | None =>
               match nonzero (atoi a), nonzero (atoi r) with
               | Some bg, Some e => if (bg <? 0) && (0 <? e) then None else Some (new_range bg e)
               | _, _ => None
               end
           end
       | None => match nonzero (atoi s) with Some n => Some (new_range n n) | None => None end
       end.

(* the character class [0-9,-.] *)
Definition nth_char (c : Z) : bool := is_digit c || ((44 <=? c) && (c <=? 46)).
Definition nth_expr (s : str) : bool := nonemptyb s && forallb nth_char s.

Definition split_nth (s : str) : option (list (Z * Z)) :=
  if nth_expr s then sequence (map parse_range (split_on COMMA s)) else None.

(* {[0-9,-.]+}|{n} somewhere in the template *)
Definition placeholder_here (t : str) : bool :=
  match t with
  | 110 :: 125 :: _ => true
  | _ => let w := take_while nth_char t in
         nonemptyb w && match skipn (length w) t with 125 :: _ => true | _ => false end
  end.
Fixpoint has_placeholder (s : str) : bool :=
  match s with
  | [] => false
  | c :: t => ((c =? 123) && placeholder_here t) || has_placeholder t
  end.
Definition nth_transformer_ok (s : str) : bool :=
  if nth_expr s then match split_nth s with Some _ => true | None => false end else has_placeholder s.

(* delimiterRegexp: only the \t substitution is observable here (the text of the delimiter) *)
Fixpoint delim_unescape (s : str) : str :=
  match s with
  | c1 :: ((c2 :: t) as t1) => if (c1 =? 92) && (c2 =? 116) then 9 :: delim_unescape t else c1 :: delim_unescape t1
  | _ => s
  end.

(* parseHeight / parseSize; the value of a percentage is read as an integer here
   (Go uses ParseFloat: decimals, exponents, inf/nan are outside the modelled domain) *)
Definition parse_height (s : str) : option val :=
  let '(auto, s) := match s with c :: r => if c =? 126 then (true, r) else (false, s) | [] => (false, s) end in
  let neg := match s with c :: _ => c =? 45 | [] => false end in
  if neg && auto then None
  else
    let s := if neg then skipn 1 s else s in
    let percent := has_suffix [37] s in
    if percent then
      match atoi (firstn (length s - 1) s) with
      | Some v => if (v <? 0) || (100 <? v) then None else Some (VL [VI v; T; vbool auto; vbool neg])
      | None => None
      end
    else if contains [DOT] s then None
    else match atoi s with
         | Some v => if v <? 0 then None else Some (VL [VI v; Fv; vbool auto; vbool neg])
         | None => None
         end.

(* strLines *)
Definition str_lines (s : str) : list str :=
  split_on 10 (if has_suffix [10] s then firstn (length s - 1) s else s).

(* parseWalkerOpts: file dir hidden follow *)
Fixpoint walker_loop (toks : list str) (f d h l : bool) : option val :=
  match toks with
  | [] => if f || d then Some (VL [vbool f; vbool d; vbool h; vbool l]) else None
  | t :: r =>
      if str_eqb t s_file then walker_loop r true d h l
      else if str_eqb t s_dir then walker_loop r f true h l
      else if str_eqb t s_hidden then walker_loop r f d true l
      else if str_eqb t s_follow then walker_loop r f d h true
      else match t with [] => walker_loop r f d h l | _ => None end
  end.

(* parseListenAddress *)
Definition parse_listen (addr : str) : option val :=
  let parts := split_on COLON addr in
  let hp := match parts with
            | [p] => Some (s_localhost, p)
            | [h; p] => Some (h, p)
            | _ => None
            end in
  match hp with
  | None => None
  | Some (h, p) =>
      match atoi p with
      | Some n => if (n <? 0) || (65535 <? n) then None
                  else Some (VL [vstr (match h with [] => s_localhost | _ => h end); VI n])
      | None => None
      end
  end.

(* regexp.MustCompile("[,:]+").Split(s, -1): the pieces between maximal runs of ',' and ':' (a leading / trailing run
   gives an empty first / last piece; the empty string gives one empty piece) *)
Definition is_cc (c : Z) : bool := (c =? COMMA) || (c =? COLON).
Fixpoint split_cc (cur : str) (insep : bool) (s : str) : list str :=
  match s with
  | [] => [rev cur]
  | c :: r => if is_cc c then (if insep then split_cc [] true r else rev cur :: split_cc [] true r)
              else split_cc (c :: cur) false r
  end.

(* parseSize(str, 100, "size"); a percentage is read as an integer here (Go: ParseFloat, see parse_height) *)
Definition parse_size100 (s : str) : option val :=
  if has_suffix [37] s then
    match atoi (firstn (length s - 1) s) with
    | Some v => if (v <? 0) || (100 <? v) then None else Some (sz v true)
    | None => None
    end
  else if contains [DOT] s then None
  else match atoi s with
       | Some v => if v <? 0 then None else Some (sz v false)
       | None => None
       end.

Definition s_border_native : str := Eval vm_compute in b "border-native".
Definition s_center : str := Eval vm_compute in b "center".
Definition s_top : str := Eval vm_compute in b "top".       Definition s_up : str := Eval vm_compute in b "up".
Definition s_bottom : str := Eval vm_compute in b "bottom". Definition s_down : str := Eval vm_compute in b "down".
Definition s_left : str := Eval vm_compute in b "left".     Definition s_right : str := Eval vm_compute in b "right".

(* tokens = append(tokens[:i], tokens[i+1:]...) for the first token equal to x *)
Fixpoint cut_first (x : str) (l : list str) : option (list str) :=
  match l with
  | [] => None
  | t :: r => if str_eqb t x then Some r
              else match cut_first x r with Some r' => Some (t :: r') | None => None end
  end.

(* parseTmuxOptions *)
Definition parse_tmux (a : str) : option val :=
  let tokens := split_cc [] false a in
  if Nat.ltb 4 (length tokens) then None
  else
    let '(tokens, border) := match cut_first s_border_native tokens with Some t => (t, true) | None => (tokens, false) end in
    let first := match tokens with t :: _ => t | [] => s_center end in
    let full := sz 100 true in let half := sz 50 true in
    let '(pos, w, h, tokens) :=
      if str_eqb first s_top || str_eqb first s_up then (P_UP, full, half, tokens)
      else if str_eqb first s_bottom || str_eqb first s_down then (P_DOWN, full, half, tokens)
      else if str_eqb first s_left then (P_LEFT, half, full, tokens)
      else if str_eqb first s_right then (P_RIGHT, half, full, tokens)
      else if str_eqb first s_center then (P_CENTER, half, half, tokens)
      else (P_CENTER, half, half, s_center :: tokens) in
    match tokens with
    | _ :: t1 :: rest =>
        match parse_size100 t1 with
        | None => None
        | Some size1 =>
            match rest with
            | [] => if (pos =? P_UP) || (pos =? P_DOWN) then Some (mk_tmux pos w size1 border)
                    else if (pos =? P_LEFT) || (pos =? P_RIGHT) then Some (mk_tmux pos size1 h border)
                    else Some (mk_tmux pos size1 size1 border)
            | [t2] => match parse_size100 t2 with
                      | Some size2 => Some (mk_tmux pos size1 size2 border)
                      | None => None
                      end
            | _ => Some (mk_tmux pos w h border)              (* four tokens: the first size is checked, nothing is assigned *)
            end
        end
    | _ => Some (mk_tmux pos w h border)
    end.

Definition run_parser (p : pid) (s : str) : option (list val) :=
  match p with
  | PStr => Some [vstr s]
  | PSomeStr => Some [vsome (vstr s)]
  | PInt => match atoi s with Some n => Some [VI n] | None => None end
  | PPosInt => match atoi s with Some n => if 0 <? n then Some [VI n] else None | None => None end
  | PAlgo => if str_eqb s s_v1 then Some [VI 1] else if str_eqb s s_v2 then Some [VI 2] else None
  | PScheme => match scheme_criteria (to_lower s) with Some c => Some [vstr (to_lower s); vints c] | None => None end
  | PTiebreak => match parse_tiebreak s with Some c => Some [vints c] | None => None end
  | PNth => match split_nth s with Some rs => Some [VL (map (fun r => VL [VI (fst r); VI (snd r)]) rs)] | None => None end
  | PNthT => if nth_transformer_ok s then Some [T] else None
  | PDelim => Some [vsome (vstr (delim_unescape s))]
  | PLayout => if str_eqb s s_default then Some [VI 0] else if str_eqb s s_reverse then Some [VI 1]
               else if str_eqb s s_reverse_list then Some [VI 2] else None
  | PHeight => match parse_height s with Some v => Some [v; T] | None => None end   (* T: the spec's F_HAFTER *)
  | PLines => Some [vstrs (str_lines s)]
  | PWalker => match walker_loop (split_on COMMA (to_lower s)) false false false false with Some v => Some [v] | None => None end
  | PSkip => Some [vstrs (filter nonemptyb (split_on COMMA s))]
  end.

(* ---------------------------------------------------------------- the option table *)

Inductive okind :=
| KFlag (ws : list (field * val))        (* no value: assigns constants *)
| KReq (fs : list field) (p : pid)       (* nextString / nextInt, then the value parser *)
| KOptNum (f : field) (dflt : Z)         (* optionalNumeric *)
| KListen (unsafe : bool)                (* optionalNextString + parseListenAddress *)
| KDirs (f : field)                      (* nextDirs *)
| KHistory | KHistorySize | KExpect | KNoExpect | KBind
| KTmux.                                 (* optionalNextString + parseTmuxOptions(str, index) *)

Definition fl (names : list string) (ws : list (field * val)) : list (str * okind) :=
  map (fun n => (b n, KFlag ws)) names.
Definition onoff (name : string) (f : field) : list (str * okind) :=
  [(b "--" ++ b name, KFlag [(f, T)]); (b "--no-" ++ b name, KFlag [(f, Fv)])].
Definition rq (names : list string) (fs : list field) (p : pid) : list (str * okind) :=
  map (fun n => (b n, KReq fs p)) names.

Definition height_zero : val := VL [VI 0; Fv; Fv; Fv].
Definition MAX_MULTI : Z := 2147483647.

Definition opt_table : list (str * okind) := Eval vm_compute in
  fl ["-x"; "--extended"]%string [(F_EXTENDED, T)] ++ fl ["-e"; "--exact"]%string [(F_FUZZY, Fv)]
  ++ fl ["--extended-exact"]%string [(F_FUZZY, Fv); (F_EXTENDED, T)]
  ++ fl ["+x"; "--no-extended"]%string [(F_EXTENDED, Fv)] ++ fl ["+e"; "--no-exact"]%string [(F_FUZZY, T)]
  ++ fl ["--literal"]%string [(F_NORMALIZE, Fv)] ++ fl ["--no-literal"]%string [(F_NORMALIZE, T)]
  ++ fl ["--enabled"; "--no-phony"]%string [(F_PHONY, Fv)] ++ fl ["--disabled"; "--phony"]%string [(F_PHONY, T)]
  ++ fl ["--no-input"]%string [(F_INPUTLESS, T)]
  ++ fl ["+s"; "--no-sort"]%string [(F_SORT, VI 0)]
  ++ onoff "track" F_TRACK ++ onoff "tac" F_TAC ++ fl ["--no-tail"]%string [(F_TAIL, VI 0)]
  ++ fl ["--smart-case"]%string [(F_CASE, VI 0)] ++ fl ["-i"; "--ignore-case"]%string [(F_CASE, VI 1)]
  ++ fl ["+i"; "--no-ignore-case"]%string [(F_CASE, VI 2)]
  ++ fl ["+m"; "--no-multi"]%string [(F_MULTI, VI 0)]
  ++ onoff "ansi" F_ANSI ++ fl ["--no-mouse"]%string [(F_MOUSE, Fv)] ++ onoff "black" F_BLACK ++ onoff "bold" F_BOLD
  ++ fl ["--reverse"]%string [(F_LAYOUT, VI 1)] ++ fl ["--no-reverse"]%string [(F_LAYOUT, VI 0)]
  ++ onoff "cycle" F_CYCLE ++ onoff "highlight-line" F_CURSORLINE ++ onoff "wrap" F_WRAP
  ++ onoff "multi-line" F_MULTILINE ++ onoff "keep-right" F_KEEPRIGHT ++ onoff "hscroll" F_HSCROLL
  ++ onoff "filepath-word" F_FILEWORD
  ++ fl ["--no-info-command"]%string [(F_INFOCMD, VL [])]
  ++ fl ["-1"; "--select-1"]%string [(F_SELECT1, T)] ++ fl ["+1"; "--no-select-1"]%string [(F_SELECT1, Fv)]
  ++ fl ["-0"; "--exit-0"]%string [(F_EXIT0, T)] ++ fl ["+0"; "--no-exit-0"]%string [(F_EXIT0, Fv)]
  ++ onoff "read0" F_READ0 ++ onoff "print0" F_PRINT0 ++ onoff "print-query" F_PRINTQUERY
  ++ fl ["--sync"]%string [(F_SYNC, T)] ++ fl ["--no-sync"; "--async"]%string [(F_SYNC, Fv)]
  ++ fl ["--no-history"]%string [(F_HISTORY, vnone)]
  ++ fl ["--no-header"]%string [(F_HEADER, VL [])] ++ fl ["--no-header-lines"]%string [(F_HEADERLINES, VI 0)]
  ++ onoff "header-first" F_HEADERFIRST ++ fl ["--no-gap"]%string [(F_GAP, VI 0)]
  ++ fl ["--no-preview"]%string [(F_PREVIEW, VL [])] ++ fl ["--no-height"]%string [(F_HEIGHT, height_zero); (F_HEIGHTIDX, VI 0); (F_HAFTER, Fv)]
  ++ fl ["--no-tmux"]%string [(F_TMUX, vnone); (F_TMUXIDX, VI 0)]
  ++ onoff "unicode" F_UNICODE ++ onoff "ambidouble" F_AMBIDOUBLE
  ++ fl ["--no-listen"; "--no-listen-unsafe"]%string [(F_LISTEN, vnone); (F_UNSAFE, Fv)]
  ++ onoff "clear" F_CLEAR ++ onoff "force-tty-in" F_FORCETTY
  ++ fl ["--"]%string []
  ++ fl ["--man"]%string [(F_EXITOPT, VI 6)] ++ fl ["--bash"]%string [(F_EXITOPT, VI 1)] ++ fl ["--zsh"]%string [(F_EXITOPT, VI 2)]
  ++ fl ["--fish"]%string [(F_EXITOPT, VI 3)] ++ fl ["-h"; "--help"]%string [(F_EXITOPT, VI 4)] ++ fl ["--version"]%string [(F_EXITOPT, VI 5)]
  ++ rq ["-q"; "--query"]%string [F_QUERY] PStr ++ rq ["-f"; "--filter"]%string [F_FILTER] PSomeStr
  ++ rq ["--algo"]%string [F_ALGO] PAlgo ++ rq ["--scheme"]%string [F_SCHEME; F_CRITERIA] PScheme
  ++ rq ["--tiebreak"]%string [F_CRITERIA] PTiebreak ++ rq ["-d"; "--delimiter"]%string [F_DELIM] PDelim
  ++ rq ["-n"; "--nth"]%string [F_NTH] PNth ++ rq ["--with-nth"]%string [F_WITHNTH] PNthT ++ rq ["--accept-nth"]%string [F_ACCEPTNTH] PNthT
  ++ rq ["--tail"]%string [F_TAIL] PPosInt ++ rq ["--layout"]%string [F_LAYOUT] PLayout
  ++ rq ["--info-command"]%string [F_INFOCMD] PStr ++ rq ["--ghost"]%string [F_GHOST] PStr ++ rq ["--prompt"]%string [F_PROMPT] PStr
  ++ rq ["--header"]%string [F_HEADER] PLines ++ rq ["--header-lines"]%string [F_HEADERLINES] PInt
  ++ rq ["--hscroll-off"]%string [F_HSCROLLOFF] PInt ++ rq ["--scroll-off"]%string [F_SCROLLOFF] PInt ++ rq ["--tabstop"]%string [F_TABSTOP] PInt
  ++ rq ["--preview"]%string [F_PREVIEW] PStr ++ rq ["--height"]%string [F_HEIGHT; F_HAFTER] PHeight ++ rq ["--with-shell"]%string [F_WITHSHELL] PStr
  ++ rq ["--walker"]%string [F_WALKER] PWalker ++ rq ["--walker-skip"]%string [F_WALKERSKIP] PSkip
  ++ [(b "-s", KOptNum F_SORT 1); (b "--sort", KOptNum F_SORT 1); (b "-m", KOptNum F_MULTI MAX_MULTI);
      (b "--multi", KOptNum F_MULTI MAX_MULTI); (b "--gap", KOptNum F_GAP 1);
      (b "--listen", KListen false); (b "--listen-unsafe", KListen true); (b "--walker-root", KDirs F_WALKERROOT);
      (b "--history", KHistory); (b "--history-size", KHistorySize); (b "--expect", KExpect);
      (b "--no-expect", KNoExpect); (b "--bind", KBind); (b "--tmux", KTmux)].

Definition kind_writes (k : okind) : list field :=
  match k with
  | KFlag ws => map fst ws
  | KReq fs p => fs ++ match p with PHeight => [F_HEIGHTIDX] | _ => [] end
  | KOptNum f _ => [f]
  | KListen _ => [F_LISTEN; F_UNSAFE]
  | KDirs f => [f]
  | KHistory => [F_HISTORY; F_HISTMAX]
  | KHistorySize => [F_HMAXLOCAL; F_HISTMAX]
  | KExpect | KNoExpect | KBind => []
  | KTmux => [F_TMUX; F_TMUXIDX; F_HAFTER]
  end.

Definition consumes_val (k : okind) : bool :=
  match k with KFlag _ | KNoExpect => false | _ => true end.

(* "--name=value" is split at the first '='; other arguments are taken whole *)
Fixpoint break_eq (cur : str) (s : str) : str * option str :=
  match s with
  | [] => (rev cur, None)
  | c :: r => if c =? 61 then (rev cur, Some r) else break_eq (c :: cur) r
  end.
Definition split_arg (a : str) : str * option str :=
  if has_prefix [DASH; DASH] a then break_eq [] a else (a, None).

Definition s_q : str := Eval vm_compute in b "-q".
Definition s_f : str := Eval vm_compute in b "-f".
Definition s_d : str := Eval vm_compute in b "-d".
Definition s_n : str := Eval vm_compute in b "-n".
Definition s_s : str := Eval vm_compute in b "-s".
Definition s_m : str := Eval vm_compute in b "-m".

(* the `default:` branch: value attached to a short option *)
Definition attached (name : str) : option (okind * option str) :=
  let v := skipn 2 name in
  if has_prefix s_q name then Some (KFlag [(F_QUERY, vstr v)], None)
  else if has_prefix s_f name then Some (KFlag [(F_FILTER, vsome (vstr v))], None)
  else if has_prefix s_d name then Some (KReq [F_DELIM] PDelim, Some v)
  else if has_prefix s_n name then Some (KReq [F_NTH] PNth, Some v)
  else if has_prefix s_s name then Some (KFlag [(F_SORT, VI 1)], None)
  else if has_prefix s_m name then Some (KOptNum F_MULTI MAX_MULTI, Some v)
  else None.

(* which option an argument names, and the value carried by the argument itself *)
Definition resolve (a : str) : option (okind * option str) :=
  let '(name, v) := split_arg a in
  match assoc_str name opt_table with
  | Some k => Some (k, v)
  | None => match attached name with
            | Some (k, Some x) => Some (k, Some x)
            | Some (k, None) => Some (k, v)
            | None => None
            end
  end.

Definition writes (a : str) : list field :=
  match resolve a with Some (k, _) => kind_writes k | None => [] end.

(* ---------------------------------------------------------------- one step of the loop *)

Definition starts_with (c : Z) (s : str) : bool := match s with x :: _ => x =? c | [] => false end.

(* nextString *)
Definition next_string (v : option str) (rest : list str) : option (str * nat) :=
  match v with
  | Some x => Some (x, 0%nat)
  | None => match rest with a :: _ => Some (a, 1%nat) | [] => None end
  end.

Fixpoint take_dirs (e : env) (l : list str) : list str :=
  match l with
  | a :: r => if isdir e a then a :: take_dirs e r else []
  | [] => []
  end.

Definition history_set (c : cfg) : bool := match fv c F_HISTORY with VL (_ :: _) => true | _ => false end.

(* parseHeight(str, index) records the position *)
Definition stamp_req (p : pid) (pos : nat) (c : cfg) : cfg :=
  match p with PHeight => setf F_HEIGHTIDX (vnat pos) c | _ => c end.

Definition tmux_ws (t : val) (pos : nat) : list (field * val) := [(F_TMUX, vsome t); (F_TMUXIDX, vnat pos); (F_HAFTER, Fv)].

(* pos = index = i + startIndex: the position of the option word being handled *)
Definition exec (e : env) (pos : nat) (k : okind) (v : option str) (c : cfg) (rest : list str) : res (outcome (cfg * nat)) :=
  match k with
  | KFlag ws => Ok (Good (setfs ws c, 0%nat))
  | KReq fs p =>
      match next_string v rest with
      | None => Ok (Bad E_VALUE_REQUIRED)
      | Some (s, n) => match run_parser p s with
                       | Some vals => Ok (Good (stamp_req p pos (setfs (combine fs vals) c), n))
                       | None => Ok (Bad E_BAD_VALUE)
                       end
      end
  | KOptNum f d =>
      match v with
      | Some x => match atoi x with Some n => Ok (Good (setf f (VI n) c, 0%nat)) | None => Ok (Bad E_BAD_VALUE) end
      | None =>
          match rest with
          | a :: _ =>
              if match a with ch :: _ => is_digit ch | [] => false end then
                match atoi a with Some n => Ok (Good (setf f (VI n) c, 1%nat)) | None => Ok (Bad E_BAD_VALUE) end
              else Ok (Good (setf f (VI d) c, 0%nat))
          | [] => Ok (Good (setf f (VI d) c, 0%nat))
          end
      end
  | KListen unsafe =>
      let given := match v with
                   | Some x => Some (x, 0%nat)
                   | None => match rest with
                             | a :: _ => if starts_with DASH a || starts_with PLUS a then None else Some (a, 1%nat)
                             | [] => None
                             end
                   end in
      match given with
      | None => Ok (Good (setfs [(F_LISTEN, vsome (VL [vstr s_localhost; VI 0])); (F_UNSAFE, vbool unsafe)] c, 0%nat))
      | Some (s, n) => match parse_listen s with
                       | Some a => Ok (Good (setfs [(F_LISTEN, vsome a); (F_UNSAFE, vbool unsafe)] c, n))
                       | None => Ok (Bad E_BAD_VALUE)
                       end
      end
  | KDirs f =>
      let ds := take_dirs e rest in
      let all := match v with Some x => x :: ds | None => ds end in
      match all with
      | [] => Ok (Bad E_VALUE_REQUIRED)
      | _ => Ok (Good (setf f (vstrs all) c, length ds))
      end
  | KHistory =>
      match next_string v rest with
      | None => Ok (Bad E_VALUE_REQUIRED)
      | Some (s, n) =>
          if histok e s then Ok (Good (setfs [(F_HISTORY, vsome (vstr s)); (F_HISTMAX, fv c F_HMAXLOCAL)] c, n))
          else Ok (Bad E_HISTORY)
      end
  | KHistorySize =>
      match next_string v rest with
      | None => Ok (Bad E_VALUE_REQUIRED)
      | Some (s, n) =>
          match atoi s with
          | None => Ok (Bad E_BAD_VALUE)
          | Some m =>
              if m <? 1 then Ok (Bad E_BAD_VALUE)
              else Ok (Good (setfs ((F_HMAXLOCAL, VI m) :: if history_set c then [(F_HISTMAX, VI m)] else []) c, n))
          end
      end
  | KExpect =>
      match next_string v rest with
      | None => Ok (Bad E_VALUE_REQUIRED)
      | Some (s, n) =>
          match parse_key_chords s with
          | Good ks => Ok (Good (mkCfg (fv c) (kmap c) (fold_left (fun acc k => add_key k acc) ks (expect c)), n))
          | Bad x => Ok (Bad x)
          end
      end
  | KNoExpect => Ok (Good (mkCfg (fv c) (kmap c) [], 0%nat))
  | KBind =>
      match next_string v rest with
      | None => Ok (Bad E_VALUE_REQUIRED)
      | Some (s, n) =>
          do o <- parse_keymap (kmap c) s;
          match o with
          | Good m => Ok (Good (mkCfg (fv c) m (expect c), n))
          | Bad x => Ok (Bad x)
          end
      end
  | KTmux =>
      let given := match v with
                   | Some x => Some (x, 0%nat)
                   | None => match rest with
                             | a :: _ => if starts_with DASH a || starts_with PLUS a then None else Some (a, 1%nat)
                             | [] => None
                             end
                   end in
      match given with
      | None => Ok (Good (setfs (tmux_ws default_tmux pos) c, 0%nat))
      | Some (s, n) => match parse_tmux s with
                       | Some t => Ok (Good (setfs (tmux_ws t pos) c, n))
                       | None => Ok (Bad E_BAD_VALUE)
                       end
      end
  end.

Definition step (e : env) (pos : nat) (c : cfg) (a : str) (rest : list str) : res (outcome (cfg * nat)) :=
  match resolve a with
  | None => Ok (Bad E_UNKNOWN_OPTION)
  | Some (k, v) =>
      do o <- exec e pos k v c rest;
      match o with
      | Bad x => Ok (Bad x)
      | Good (c', n) =>
          if consumes_val k then Ok (Good (c', n))
          else match v with None => Ok (Good (c', n)) | Some _ => Ok (Bad E_UNEXPECTED_VALUE) end
      end
  end.

(* for ; i < len(allArgs); i++ — `skip` arguments were consumed as values by the previous step;
   pos = i + startIndex is the position of the head of args *)
Fixpoint go (e : env) (c : cfg) (pos : nat) (skip : nat) (args : list str) : res (outcome cfg) :=
  match args with
  | [] => Ok (Good c)
  | a :: rest =>
      match skip with
      | S k => go e c (S pos) k rest
      | O => do o <- step e pos c a rest;
             match o with
             | Bad x => Ok (Bad x)
             | Good (c', n) => go e c' (S pos) n rest
             end
      end
  end.

Definition as_z (v : val) : Z := as_int v.

Definition end_validate (c : cfg) : outcome cfg :=
  if as_z (fv c F_HEADERLINES) <? 0 then Bad E_VALIDATION
  else if as_z (fv c F_HSCROLLOFF) <? 0 then Bad E_VALIDATION
  else if as_z (fv c F_SCROLLOFF) <? 0 then Bad E_VALIDATION
  else if as_z (fv c F_TABSTOP) <? 1 then Bad E_VALIDATION
  else Good c.

(* historyMax is a local of parseOptions, initialised from opts.History at every call *)
Definition layer_init (c : cfg) : cfg :=
  setf F_HMAXLOCAL (if history_set c then fv c F_HISTMAX else VI 1000) c.

(* parseOptions(&index, opts, allArgs), start = *index on entry; on return *index = start + len(allArgs) *)
Definition parse_layer (e : env) (start : nat) (c : cfg) (args : list str) : res (outcome cfg) :=
  do o <- go e (layer_init c) start 0 args;
  match o with
  | Bad x => Ok (Bad x)
  | Good c' => Ok (end_validate c')
  end.

Fixpoint parse_layers (e : env) (start : nat) (c : cfg) (layers : list (list str)) : res (outcome cfg) :=
  match layers with
  | [] => Ok (Good c)
  | l :: r =>
      do o <- parse_layer e start c l;
      match o with
      | Bad x => Ok (Bad x)
      | Good c' => parse_layers e (start + length l) c' r
      end
  end.

(* ---------------------------------------------------------------- defaults and ParseOptions *)

Definition s_dotgit : str := Eval vm_compute in b ".git".
Definition s_node_modules : str := Eval vm_compute in b "node_modules".
Definition s_prompt : str := Eval vm_compute in b "> ".

Definition default_cfg : cfg :=
  setfs [ (F_FUZZY, T); (F_EXTENDED, T); (F_NORMALIZE, T); (F_ALGO, VI 2); (F_SCHEME, VL []); (F_CRITERIA, VL []);
          (F_NTH, VL []); (F_DELIM, vnone); (F_SORT, VI 1000); (F_HEIGHT, height_zero); (F_QUERY, VL []);
          (F_FILTER, vnone); (F_HISTORY, vnone); (F_HEADER, VL []); (F_LISTEN, vnone);
          (F_WALKER, VL [T; Fv; T; T]); (F_WALKERROOT, vstrs [[DOT]]); (F_WALKERSKIP, vstrs [s_dotgit; s_node_modules]);
          (F_PROMPT, vstr s_prompt); (F_GHOST, VL []); (F_TABSTOP, VI 8); (F_HSCROLLOFF, VI 10); (F_SCROLLOFF, VI 3);
          (F_MOUSE, T); (F_BOLD, T); (F_HSCROLL, T); (F_MULTILINE, T); (F_CLEAR, T); (F_UNICODE, T);
          (F_INFOCMD, VL []); (F_WITHSHELL, VL []); (F_PREVIEW, VL []); (F_HMAXLOCAL, VI 1000);
          (F_TMUX, vnone) ]
        (mkCfg (fun _ => VI 0) [] []).

Definition s_reload : str := Eval vm_compute in b "reload".
Definition s_reload_sync : str := Eval vm_compute in b "reload-sync".
Definition s_transform : str := Eval vm_compute in b "transform".
Definition s_start : str := Eval vm_compute in b "start".

Definition reload_on_start (c : cfg) : bool :=
  existsb (fun a => str_eqb (fst a) s_reload || str_eqb (fst a) s_reload_sync || str_eqb (fst a) s_transform)
          (km_get (kmap c) (KNamed s_start)).

(* step 4 of ParseOptions: default scheme *)
Definition finalize (e : env) (c : cfg) : cfg :=
  match fv c F_SCHEME with
  | VL [] =>
      match fv c F_CRITERIA with
      | VL [] =>
          let s := if negb (reload_on_start c) && tty e then s_path else s_default in
          setfs [(F_SCHEME, vstr s); (F_CRITERIA, match scheme_criteria s with Some l => vints l | None => VL [] end)] c
      | _ => setf F_SCHEME (vstr s_default) c
      end
  | _ => c
  end.

(* ParseOptions(useDefaults = true, args): empty file/env layers are skipped, the command line never is *)
Definition parse_all (e : env) (file envw argv : list str) : res (outcome cfg) :=
  do o <- parse_layers e 0 default_cfg (filter nonemptyb [file; envw] ++ [argv]);
  match o with
  | Bad x => Ok (Bad x)
  | Good c => Ok (Good (finalize e c))
  end.

(* what the process does with the result: a configuration, or a message and exit status 2 *)
Inductive cli_result := Config (c : cfg) | ExitWith (status : Z) (code : Z).
Definition EXIT_ERROR : Z := 2.
Definition cli (e : env) (file envw argv : list str) : res cli_result :=
  do o <- parse_all e file envw argv;
  match o with
  | Good c => Ok (Config c)
  | Bad x => Ok (ExitWith EXIT_ERROR x)
  end.

(* core.go Run: opts.Tmux != nil && opts.Tmux.index >= opts.Height.index (inside tmux, without --filter) *)
Definition popup_impl (c : cfg) : bool :=
  is_some (fv c F_TMUX) && (as_int (fv c F_HEIGHTIDX) <=? as_int (fv c F_TMUXIDX)).
