(* C06 model, part 2: ChunkList of src/chunklist.go and the item builder of src/core.go.

   A chunk is the valid prefix items[0..count) of its fixed array (count = length);
   the stale cells beyond count are not modelled.  chunkSize is a parameter.
   Copies of chunks (`newChunk := *chunk`) are identities on values; sharing between the
   list and its snapshots is the subject of C13, not of this model.
   Go `int` counters that may go negative are Z.  Every access is checked.  No proofs here. *)
From Fzf Require Import Prelude RecordSpec ReaderModel.
Open Scope Z_scope.

Section ChunkList.
Context {A : Type}.
Variable chunk_size : nat.

Definition chunk := list A.
Definition chunklist := list chunk.

Definition is_full (c : chunk) : bool := (length c =? chunk_size)%nat.

Definition last_chunk (cs : chunklist) : res chunk :=       (* cl.chunks[len(cl.chunks)-1] *)
  match cs with [] => Err OutOfRange | _ => get cs (length cs - 1) end.

(* CountItems: arithmetic on the first and last chunk, not a sum *)
Definition count_items (cs : chunklist) : res nat :=
  match cs with
  | [] => Ok O
  | [c] => Ok (length c)
  | c0 :: _ =>
      do l <- last_chunk cs;
      Ok (length c0 + chunk_size * (length cs - 2) + length l)%nat
  end.

(* ChunkList.Push; accept = what the item builder returned (false: header line) *)
Definition push (cs : chunklist) (accept : bool) (x : A) : res chunklist :=
  do cs1 <- (match cs with
             | [] => Ok [[]]
             | _ => do l <- last_chunk cs; Ok (if is_full l then cs ++ [[]] else cs)
             end);
  do l <- last_chunk cs1;
  if accept then
    (* c.items[c.count] = item: index check against the array size *)
    if (length l <? chunk_size)%nat then set_nth cs1 (length cs1 - 1) (l ++ [x])
    else Err OutOfRange
  else Ok cs1.

(* `for left, i := tail, len-1; left > 0 && i >= 0; i-- { numChunks++; left -= count }`
   over the chunks from the newest *)
Fixpoint num_chunks (left : Z) (rcs : list chunk) : nat :=
  match rcs with
  | [] => O
  | c :: r => if 0 <? left then S (num_chunks (left - Z.of_nat (length c)) r) else O
  end.

(* second loop, newest first: the first chunk holding more than `left` keeps its last `left`
   items (items[i] = items[oldCount-left+i]) and the loop stops *)
Fixpoint trim_loop (left : Z) (rret : list chunk) : list chunk :=
  match rret with
  | [] => []
  | c :: r =>
      if left <? Z.of_nat (length c)
      then skipn (length c - Z.to_nat left) c :: r
      else c :: trim_loop (left - Z.of_nat (length c)) r
  end.

(* Snapshot(tail): new cl.chunks, returned chunks, returned count, changed *)
Definition snapshot (tail : nat) (cs : chunklist) : res (chunklist * chunklist * nat * bool) :=
  do cnt <- count_items cs;
  let '(cs', changed) :=
    if (0 <? tail)%nat && (tail <? cnt)%nat then
      let n := num_chunks (Z.of_nat tail) (rev cs) in
      let min_index := (length cs - n)%nat in
      let ret := skipn min_index cs in
      (rev (trim_loop (Z.of_nat tail) (rev ret)), true)
    else (cs, false) in
  do c <- count_items cs';
  Ok (cs', cs', c, changed).

Inductive clop := Push (accept : bool) (x : A) | Snapshot (tail : nat) | Clear.

(* state + what each Snapshot returned (chunks, count, changed), oldest first *)
Definition clobs := (chunklist * nat * bool)%type.

Fixpoint run_ops (cs : chunklist) (ops : list clop) : res (chunklist * list clobs) :=
  match ops with
  | [] => Ok (cs, [])
  | Push a x :: r => do cs' <- push cs a x; run_ops cs' r
  | Clear :: r => run_ops [] r
  | Snapshot t :: r =>
      do s <- snapshot t cs;
      let '(cs', ret, cnt, ch) := s in
      do y <- run_ops cs' r;
      Ok (fst y, (ret, cnt, ch) :: snd y)
  end.

End ChunkList.

(* ---- the item builder closure of core.go (WithNth == nil): header diversion + numbering ---- *)
Record bstate := mkB { b_header : list str; b_index : nat }.

Definition build (hl : nat) (st : bstate) (data : str) : bstate * option item :=
  if (length (b_header st) <? hl)%nat
  then (mkB (b_header st ++ [data]) (b_index st), None)
  else (mkB (b_header st) (S (b_index st)), Some (b_index st, data)).

(* reader -> builder -> chunk list, for records already cut by Reader.feed *)
Fixpoint ingest (chunk_size hl : nat) (st : bstate) (cs : @chunklist item) (recs : list str)
  : res (bstate * @chunklist item) :=
  match recs with
  | [] => Ok (st, cs)
  | r :: t =>
      let '(st', it) := build hl st r in
      do cs' <- (match it with
                 | Some x => push chunk_size cs true x
                 | None => push chunk_size cs false (O, r)
                 end);
      ingest chunk_size hl st' cs' t
  end.

(* the whole input path in --filter mode: feed, build, push, then one Snapshot(tail) after EvtReadFin.
   Result: header lines and the searchable items in order. *)
Definition pipeline (bufsz slabsz chunk_size : nat) (read0 : bool) (hl tail : nat) (s : str) (cuts : list nat)
  : res (list str * list item) :=
  do recs <- feed_records bufsz slabsz (delim_of read0) false s cuts;
  do bc <- ingest chunk_size hl (mkB [] O) [] recs;
  do sn <- snapshot chunk_size tail (snd bc);
  let '(_, ret, _, _) := sn in
  Ok (b_header (fst bc), concat ret).
