(* C15 model, part 2: the header changes during a session.
     toggle-header / hide-header / show-header      Terminal.headerVisible
     change-header / transform-header               Terminal.changeHeader (header0)
   The rows a header gives up go to the list and the rows it takes come from the list, WITHOUT a full redraw:
   the actions request reqPrompt, reqInfo, reqHeader and reqList, and printItem has to notice by itself that the
   row it is about to repaint incrementally last showed something that was not a list line.  That is what
   itemLine.other is for (markOtherLine, called by printHighlighted when it prints a header line), and it is the part
   of the prevLines bookkeeping that RenderModel leaves out (there the header never changes).  Here it is restated:
     print_item_d     printItem with   forceRedraw := !prevLine.valid || prevLine.other   (firstLine never differs:
                      every item takes one line in this configuration)
     draw_rows_d      the loop of printList; renderEmptyLine -> markEmptyLine resets the flag
     print_header_d   printHeader: nothing when hidden; every printed line is marked `other`
     print_all_d      resizeIfNeeded -> printAll (resizeWindows forgets prevLines; no tui.Clear)
     handle_d         one round of the render goroutine;   step_d  an action list changed header and fields
   Configuration as in RenderModel (plain, one line per item), the input section shown (no toggle-input), the header
   inside the list window: layouts default and reverse, and reverse-list WITHOUT --header-lines (with them the header
   lines, the header and the input get windows of their own: not modelled, see dyn_domain).
   Reverse-list: Terminal.move sends list line y to window row y - (input lines + header lines in the list window), so
   the row of a logical line moves when the header changes size, while prevLines stays indexed by logical line.  The
   buffer is kept in logical lines (as in RenderModel); `relabel` renumbers it when the header size changes so that
   what is ON the terminal stays where it is.  In the other two layouts the row of a line does not depend on the header.
   The prompt and info lines are marked `other` by the code as well; they lie below promptLines and never become
   list lines while the input is shown, so their entries are not represented. *)
From Fzf Require Import Prelude RenderSpec RenderModel.
Open Scope nat_scope.

(* the header as the actions leave it *)
Record hdr := mkHdr {
  h_visible : bool;          (* Terminal.headerVisible *)
  h_header : list str;       (* header0: --header, change-header, transform-header *)
  h_hlines : list str        (* the --header-lines lines (fixed) *)
}.

(* visibleHeaderLines: a hidden header takes no rows, --header-lines included *)
Definition with_hdr (c : cfg) (h : hdr) : cfg :=
  mkCfg (c_w c) (c_h c) (c_layout c) (c_info c) (c_sep c)
        (if h_visible h then h_header h else []) (if h_visible h then h_hlines h else [])
        (c_multi c) (c_tabstop c).

Definition dyn_domain (c : cfg) (h : hdr) : Prop :=
  match c_layout c with LReverseList => h_hlines h = [] | _ => True end.

(* the terminal of RenderModel, itemLine.other per logical line, and the header in force *)
Record dterm := mkDT { d_t : term; d_other : list bool; d_hdr : hdr }.

(* window rows -> logical lines, the inverse of RenderModel.physical (reverse-list: no --header-lines, see dyn_domain) *)
Definition logical (c : cfg) (rows : list row) : list row :=
  match c_layout c with
  | LDefault => rev rows
  | LReverse => rows
  | LReverseList =>
      let pl := prompt_lines c in
      let n0 := length (c_header c) in
      let nl := c_h c - pl - n0 in
      rev (skipn (nl + n0) rows) ++ rev (firstn n0 (skipn nl rows)) ++ firstn nl rows
  end.
(* the header went from c's to c': same terminal contents, new line numbers *)
Definition relabel (c c' : cfg) (scr : list row) : list row :=
  match c_layout c with
  | LReverseList => logical c' (physical c scr)
  | _ => scr
  end.

Definition il_otherv : iline := mkIL true false false false 0 0 None.   (* markOtherLine: {valid, firstLine, other} *)

(* printItem *)
Definition print_item_d (w ts cy qlen : nat) (sel : list nat) (pos : nat) (m : nat * str)
                        (x : (iline * bool) * row) : (iline * bool) * row :=
  let '((p, o), r) := x in
  let cur := Nat.eqb pos cy in
  let selected := memb (fst m) sel in
  let force := negb (il_valid p) || o in
  if negb force && Bool.eqb (il_cur p) cur && Bool.eqb (il_sel p) selected && (il_qlen p =? qlen)
     && idx_is (il_idx p) (fst m)
  then x
  else
    let maxw := w - 3 in
    let txt := item_text ts maxw (snd m) in
    let width := length txt in
    let lblmk := (if 1 <=? w then [if cur then GT else SP] else []) ++
                 (if 2 <=? w then [if selected then GT else SP] else []) in
    let fill := (if force then maxw else il_width p) - width in      (* fillSpaces: maxWidth - width when forced *)
    let r1 := put 0 (lblmk ++ txt ++ repeat SP fill) r in
    let r2 := if force || (width =? 0) then clear_from w (w - 1) r1 else r1 in
    ((mkIL true false cur selected qlen width (Some (fst m)), false), r2).

Fixpoint draw_rows_d (w ts cy qlen : nat) (sel : list nat) (pos : nat) (ms : list (nat * str))
                     (xs : list ((iline * bool) * row)) : list ((iline * bool) * row) :=
  match xs with
  | [] => []
  | x :: rest =>
      match ms with
      | m :: ms' => print_item_d w ts cy qlen sel pos m x :: draw_rows_d w ts cy qlen sel (S pos) ms' rest
      | [] => (if il_empty (fst (fst x)) then x else ((il_blank, false), clear_from w 0 (snd x)))
              :: draw_rows_d w ts cy qlen sel pos [] rest
      end
  end.

Definition dset (d : dterm) (s : list row) (p : list iline) (o : list bool) : dterm := mkDT (set_draw (d_t d) s p) o (d_hdr d).
Definition lift (f : term -> term) (d : dterm) : dterm := mkDT (f (d_t d)) (d_other d) (d_hdr d).

(* printList after constrain *)
Definition print_list_at_d (c : cfg) (d : dterm) : dterm :=
  let t := d_t d in
  let start := list_start c in
  let n := max_items c in
  let seg := combine (combine (firstn n (skipn start (t_prev t))) (firstn n (skipn start (d_other d))))
                     (firstn n (skipn start (t_screen t))) in
  let seg' := draw_rows_d (c_w c) (c_tabstop c) (t_cy t) (length (t_query t)) (t_sel t) (t_off t) (skipn (t_off t) (t_matches t)) seg in
  dset d (firstn start (t_screen t) ++ map snd seg' ++ skipn (start + n) (t_screen t))
         (firstn start (t_prev t) ++ map (fun x => fst (fst x)) seg' ++ skipn (start + n) (t_prev t))
         (firstn start (d_other d) ++ map (fun x => snd (fst x)) seg' ++ skipn (start + n) (d_other d)).

Definition print_list_d (c : cfg) (d : dterm) : dterm :=
  let t := d_t d in
  let '(cy, off) := constrain (length (t_matches t)) (max_items c) scroll_off_default (t_cy t) (t_off t) in
  print_list_at_d c (mkDT (set_scroll t cy off) (d_other d) (d_hdr d)).

(* printHeader: the lines of the (visible) header, each one cleared, printed and marked *)
Fixpoint mark_from {A} (v : A) (line n : nat) (l : list A) : list A :=
  match n with
  | O => l
  | S k => mark_from v (S line) k (upd_at line (fun _ => v) l)
  end.
Definition print_header_d (c : cfg) (d : dterm) : dterm :=
  let t := d_t d in
  let hs := hdr_logical c in
  dset d (print_header_from (c_w c) (c_tabstop c) (prompt_lines c) hs (t_screen t))
         (mark_from il_otherv (prompt_lines c) (length hs) (t_prev t))
         (mark_from true (prompt_lines c) (length hs) (d_other d)).

(* resizeIfNeeded -> printAll: resizeWindows makes a new prevLines; nothing is erased *)
Definition print_all_d (c : cfg) (d : dterm) : dterm :=
  let d0 := dset d (t_screen (d_t d)) (repeat il_none (c_h c)) (repeat false (c_h c)) in
  print_header_d c (lift (print_info c) (lift (print_prompt c) (print_list_d c d0))).

(* fullRedraw: Clear, printAll *)
Definition full_redraw_d (c : cfg) (d : dterm) : dterm :=
  print_all_d c (dset d (repeat (blank (c_w c)) (c_h c)) (t_prev (d_t d)) (d_other d)).

(* resizeIfNeeded in the plain configuration: no header border; the header-lines shape is `phantom` in the
   reverse-list layout only, and there (without --header-lines) a visible --header that has no window of its own
   asks for printAll every time *)
Definition resize_needed (c : cfg) : bool :=
  match c_layout c with LReverseList => 0 <? length (c_header c) | _ => false end.

Definition handle_d (c : cfg) (rq : reqs) (d : dterm) : dterm :=
  let d := if rq_prompt rq then lift (print_prompt c) d else d in
  let d := if rq_header rq then (if resize_needed c then print_all_d c d else print_header_d c d) else d in
  let d := if rq_list rq then print_list_d c d else d in
  let d := if rq_full rq then full_redraw_d c d else d in
  if rq_info rq || (rq_prompt rq && is_inline c) then lift (print_info c) d else d.

(* one step of a history: the actions left the header as du_hdr says and changed the fields, then asked for redraws *)
Record dupd := mkDU { du_hdr : hdr; du_upd : upd }.
Definition step_d (c0 : cfg) (d : dterm) (du : dupd) : dterm :=
  let u := du_upd du in
  let t := d_t d in
  let c := with_hdr c0 (d_hdr d) in
  let c' := with_hdr c0 (du_hdr du) in
  handle_d c' (u_reqs u)
    (mkDT (mkTerm (u_prompt u) (u_query u) (u_matches u) (u_total u) (u_cy u) (t_off t) (u_sel u)
                  (relabel c c' (t_screen t)) (t_prev t)) (d_other d) (du_hdr du)).
Definition run_d (c0 : cfg) (d : dterm) (dus : list dupd) : dterm := fold_left (step_d c0) dus d.

Definition start_d (c0 : cfg) (h0 : hdr) (v : view) : dterm :=
  full_redraw_d (with_hdr c0 h0) (mkDT (term_of_view v) [] h0).

(* the header in force after a history *)
Definition last_hdr (h0 : hdr) (dus : list dupd) : hdr := fold_left (fun _ du => du_hdr du) dus h0.
