(* C08 model: the event coordination of src/core.go `Run` (the eventBox.Wait loop), the part of
   src/terminal.go that issues search requests (end of Terminal.Loop, with the request merge of
   eventBox.Update), Terminal.Input / UpdateCount / UpdateList, the reader's event protocol
   (reader.go: pusher, startEventPoller, fin) and an ABSTRACT matcher.

   Threads become labels of a transition system; a schedule is a list of labels; `step` is total
   (a label that is not enabled leaves the state unchanged).  One coordinator round
   (`eventBox.Wait(func(events){ for evt := range events {...}; events.Clear() })`, events visited in
   Go's random map order) is split into one label per event kind; a real round is a run of these labels
   without interleaving, in any order, so real schedules are a subset of the model's schedules.
   The coordinator's `delay`/`ticks`/time.Sleep is NOT a transition: it only postpones LCoord* labels.

   Abstractions (named in manifest.d/C08.json):
   * the matcher is "one mailbox slot holding the latest request + at most one running scan that may
     be published, or cancelled when a newer request is waiting"; a merger is represented by the
     request it answers (result = filter of that request: theorems loop_fresh / last_request_wins of
     the C13 package; since commit afab7e8 requests carry a sequence number and Loop keeps the newest,
     r_id below is that number);
   * chunk list = list of items (index), Snapshot = the whole list (--tail is not modelled, so
     Snapshot never reports `changed`); a pattern is (query, nth, denylist) as captured by patternBuilder;
   * what a command produces is arbitrary: LPush carries the items; LFin may come at any time
     (EOF or the command was killed by reader.terminate);
   * not modelled: EvtQuit, EvtHeader, EvtSearchProgress, the start-up gating (`determine`,
     --sync/--select-1/--exit-0 deferral), selections/cursor tracking in UpdateList.
   g_* fields are ghosts (never read by the transitions that model code; they carry the user's intent). *)
From Fzf Require Import Prelude CoordSpec.
Open Scope Z_scope.

Definition rev := (nat * nat)%type.                         (* revision{major, minor} *)
Definition major (r : rev) : nat := fst r.
Definition bump_major (r : rev) : rev := (S (fst r), 0%nat).
Definition bump_minor (r : rev) : rev := (fst r, S (snd r)).
Definition compat (a b : rev) : bool := Nat.eqb (fst a) (fst b).          (* revision.compatible *)
Definition rev_eqb (a b : rev) : bool := Nat.eqb (fst a) (fst b) && Nat.eqb (snd a) (snd b).
Definition cmd := Z.                                        (* names a reload command *)

(* terminal.go searchRequest *)
Record sreq := mkSreq { q_sort : bool; q_sync : bool; q_nth : option nthv; q_cmd : option cmd;
                        q_changed : bool; q_deny : list Z; q_rev : rev }.
(* matcher.go MatchRequest (pattern = query + nth + denylist) = the merger that answers it *)
Record mreq := mkMreq { r_id : nat; r_items : list item; r_query : str; r_final : bool; r_sort : bool;
                        r_rev : rev; r_nth : nthv; r_deny : list Z }.

Record st := mkSt {
  t_input : str;
  t_paused : bool;
  t_sort : bool;
  t_nth : nthv;
  t_merger : mreq;
  t_count : nat;
  e_new : bool;
  e_fin : bool;
  e_search : option sreq;
  e_sfin : option mreq;
  rd_alive : bool;
  rd_dirty : bool;
  cl : list item;
  c_reading : bool;
  c_next : option cmd;
  c_query : str;
  c_sort : bool;
  c_nth : nthv;
  c_deny : list Z;
  c_irev : rev;
  c_srev : rev;
  c_usesnap : bool;
  c_snap : list item;
  c_count : nat;
  m_pending : option mreq;
  m_running : option mreq;
  g_deny : list Z;
  g_last : option mreq;
  g_id : nat;
  g_dclean : bool;
  g_cmd : option cmd;
  g_started : option cmd
}.

Definition set_t_input (v : str) (s : st) : st := mkSt v (t_paused s) (t_sort s) (t_nth s) (t_merger s) (t_count s) (e_new s) (e_fin s) (e_search s) (e_sfin s) (rd_alive s) (rd_dirty s) (cl s) (c_reading s) (c_next s) (c_query s) (c_sort s) (c_nth s) (c_deny s) (c_irev s) (c_srev s) (c_usesnap s) (c_snap s) (c_count s) (m_pending s) (m_running s) (g_deny s) (g_last s) (g_id s) (g_dclean s) (g_cmd s) (g_started s).
Definition set_t_paused (v : bool) (s : st) : st := mkSt (t_input s) v (t_sort s) (t_nth s) (t_merger s) (t_count s) (e_new s) (e_fin s) (e_search s) (e_sfin s) (rd_alive s) (rd_dirty s) (cl s) (c_reading s) (c_next s) (c_query s) (c_sort s) (c_nth s) (c_deny s) (c_irev s) (c_srev s) (c_usesnap s) (c_snap s) (c_count s) (m_pending s) (m_running s) (g_deny s) (g_last s) (g_id s) (g_dclean s) (g_cmd s) (g_started s).
Definition set_t_sort (v : bool) (s : st) : st := mkSt (t_input s) (t_paused s) v (t_nth s) (t_merger s) (t_count s) (e_new s) (e_fin s) (e_search s) (e_sfin s) (rd_alive s) (rd_dirty s) (cl s) (c_reading s) (c_next s) (c_query s) (c_sort s) (c_nth s) (c_deny s) (c_irev s) (c_srev s) (c_usesnap s) (c_snap s) (c_count s) (m_pending s) (m_running s) (g_deny s) (g_last s) (g_id s) (g_dclean s) (g_cmd s) (g_started s).
Definition set_t_nth (v : nthv) (s : st) : st := mkSt (t_input s) (t_paused s) (t_sort s) v (t_merger s) (t_count s) (e_new s) (e_fin s) (e_search s) (e_sfin s) (rd_alive s) (rd_dirty s) (cl s) (c_reading s) (c_next s) (c_query s) (c_sort s) (c_nth s) (c_deny s) (c_irev s) (c_srev s) (c_usesnap s) (c_snap s) (c_count s) (m_pending s) (m_running s) (g_deny s) (g_last s) (g_id s) (g_dclean s) (g_cmd s) (g_started s).
Definition set_t_merger (v : mreq) (s : st) : st := mkSt (t_input s) (t_paused s) (t_sort s) (t_nth s) v (t_count s) (e_new s) (e_fin s) (e_search s) (e_sfin s) (rd_alive s) (rd_dirty s) (cl s) (c_reading s) (c_next s) (c_query s) (c_sort s) (c_nth s) (c_deny s) (c_irev s) (c_srev s) (c_usesnap s) (c_snap s) (c_count s) (m_pending s) (m_running s) (g_deny s) (g_last s) (g_id s) (g_dclean s) (g_cmd s) (g_started s).
Definition set_t_count (v : nat) (s : st) : st := mkSt (t_input s) (t_paused s) (t_sort s) (t_nth s) (t_merger s) v (e_new s) (e_fin s) (e_search s) (e_sfin s) (rd_alive s) (rd_dirty s) (cl s) (c_reading s) (c_next s) (c_query s) (c_sort s) (c_nth s) (c_deny s) (c_irev s) (c_srev s) (c_usesnap s) (c_snap s) (c_count s) (m_pending s) (m_running s) (g_deny s) (g_last s) (g_id s) (g_dclean s) (g_cmd s) (g_started s).
Definition set_e_new (v : bool) (s : st) : st := mkSt (t_input s) (t_paused s) (t_sort s) (t_nth s) (t_merger s) (t_count s) v (e_fin s) (e_search s) (e_sfin s) (rd_alive s) (rd_dirty s) (cl s) (c_reading s) (c_next s) (c_query s) (c_sort s) (c_nth s) (c_deny s) (c_irev s) (c_srev s) (c_usesnap s) (c_snap s) (c_count s) (m_pending s) (m_running s) (g_deny s) (g_last s) (g_id s) (g_dclean s) (g_cmd s) (g_started s).
Definition set_e_fin (v : bool) (s : st) : st := mkSt (t_input s) (t_paused s) (t_sort s) (t_nth s) (t_merger s) (t_count s) (e_new s) v (e_search s) (e_sfin s) (rd_alive s) (rd_dirty s) (cl s) (c_reading s) (c_next s) (c_query s) (c_sort s) (c_nth s) (c_deny s) (c_irev s) (c_srev s) (c_usesnap s) (c_snap s) (c_count s) (m_pending s) (m_running s) (g_deny s) (g_last s) (g_id s) (g_dclean s) (g_cmd s) (g_started s).
Definition set_e_search (v : option sreq) (s : st) : st := mkSt (t_input s) (t_paused s) (t_sort s) (t_nth s) (t_merger s) (t_count s) (e_new s) (e_fin s) v (e_sfin s) (rd_alive s) (rd_dirty s) (cl s) (c_reading s) (c_next s) (c_query s) (c_sort s) (c_nth s) (c_deny s) (c_irev s) (c_srev s) (c_usesnap s) (c_snap s) (c_count s) (m_pending s) (m_running s) (g_deny s) (g_last s) (g_id s) (g_dclean s) (g_cmd s) (g_started s).
Definition set_e_sfin (v : option mreq) (s : st) : st := mkSt (t_input s) (t_paused s) (t_sort s) (t_nth s) (t_merger s) (t_count s) (e_new s) (e_fin s) (e_search s) v (rd_alive s) (rd_dirty s) (cl s) (c_reading s) (c_next s) (c_query s) (c_sort s) (c_nth s) (c_deny s) (c_irev s) (c_srev s) (c_usesnap s) (c_snap s) (c_count s) (m_pending s) (m_running s) (g_deny s) (g_last s) (g_id s) (g_dclean s) (g_cmd s) (g_started s).
Definition set_rd_alive (v : bool) (s : st) : st := mkSt (t_input s) (t_paused s) (t_sort s) (t_nth s) (t_merger s) (t_count s) (e_new s) (e_fin s) (e_search s) (e_sfin s) v (rd_dirty s) (cl s) (c_reading s) (c_next s) (c_query s) (c_sort s) (c_nth s) (c_deny s) (c_irev s) (c_srev s) (c_usesnap s) (c_snap s) (c_count s) (m_pending s) (m_running s) (g_deny s) (g_last s) (g_id s) (g_dclean s) (g_cmd s) (g_started s).
Definition set_rd_dirty (v : bool) (s : st) : st := mkSt (t_input s) (t_paused s) (t_sort s) (t_nth s) (t_merger s) (t_count s) (e_new s) (e_fin s) (e_search s) (e_sfin s) (rd_alive s) v (cl s) (c_reading s) (c_next s) (c_query s) (c_sort s) (c_nth s) (c_deny s) (c_irev s) (c_srev s) (c_usesnap s) (c_snap s) (c_count s) (m_pending s) (m_running s) (g_deny s) (g_last s) (g_id s) (g_dclean s) (g_cmd s) (g_started s).
Definition set_cl (v : list item) (s : st) : st := mkSt (t_input s) (t_paused s) (t_sort s) (t_nth s) (t_merger s) (t_count s) (e_new s) (e_fin s) (e_search s) (e_sfin s) (rd_alive s) (rd_dirty s) v (c_reading s) (c_next s) (c_query s) (c_sort s) (c_nth s) (c_deny s) (c_irev s) (c_srev s) (c_usesnap s) (c_snap s) (c_count s) (m_pending s) (m_running s) (g_deny s) (g_last s) (g_id s) (g_dclean s) (g_cmd s) (g_started s).
Definition set_c_reading (v : bool) (s : st) : st := mkSt (t_input s) (t_paused s) (t_sort s) (t_nth s) (t_merger s) (t_count s) (e_new s) (e_fin s) (e_search s) (e_sfin s) (rd_alive s) (rd_dirty s) (cl s) v (c_next s) (c_query s) (c_sort s) (c_nth s) (c_deny s) (c_irev s) (c_srev s) (c_usesnap s) (c_snap s) (c_count s) (m_pending s) (m_running s) (g_deny s) (g_last s) (g_id s) (g_dclean s) (g_cmd s) (g_started s).
Definition set_c_next (v : option cmd) (s : st) : st := mkSt (t_input s) (t_paused s) (t_sort s) (t_nth s) (t_merger s) (t_count s) (e_new s) (e_fin s) (e_search s) (e_sfin s) (rd_alive s) (rd_dirty s) (cl s) (c_reading s) v (c_query s) (c_sort s) (c_nth s) (c_deny s) (c_irev s) (c_srev s) (c_usesnap s) (c_snap s) (c_count s) (m_pending s) (m_running s) (g_deny s) (g_last s) (g_id s) (g_dclean s) (g_cmd s) (g_started s).
Definition set_c_query (v : str) (s : st) : st := mkSt (t_input s) (t_paused s) (t_sort s) (t_nth s) (t_merger s) (t_count s) (e_new s) (e_fin s) (e_search s) (e_sfin s) (rd_alive s) (rd_dirty s) (cl s) (c_reading s) (c_next s) v (c_sort s) (c_nth s) (c_deny s) (c_irev s) (c_srev s) (c_usesnap s) (c_snap s) (c_count s) (m_pending s) (m_running s) (g_deny s) (g_last s) (g_id s) (g_dclean s) (g_cmd s) (g_started s).
Definition set_c_sort (v : bool) (s : st) : st := mkSt (t_input s) (t_paused s) (t_sort s) (t_nth s) (t_merger s) (t_count s) (e_new s) (e_fin s) (e_search s) (e_sfin s) (rd_alive s) (rd_dirty s) (cl s) (c_reading s) (c_next s) (c_query s) v (c_nth s) (c_deny s) (c_irev s) (c_srev s) (c_usesnap s) (c_snap s) (c_count s) (m_pending s) (m_running s) (g_deny s) (g_last s) (g_id s) (g_dclean s) (g_cmd s) (g_started s).
Definition set_c_nth (v : nthv) (s : st) : st := mkSt (t_input s) (t_paused s) (t_sort s) (t_nth s) (t_merger s) (t_count s) (e_new s) (e_fin s) (e_search s) (e_sfin s) (rd_alive s) (rd_dirty s) (cl s) (c_reading s) (c_next s) (c_query s) (c_sort s) v (c_deny s) (c_irev s) (c_srev s) (c_usesnap s) (c_snap s) (c_count s) (m_pending s) (m_running s) (g_deny s) (g_last s) (g_id s) (g_dclean s) (g_cmd s) (g_started s).
Definition set_c_deny (v : list Z) (s : st) : st := mkSt (t_input s) (t_paused s) (t_sort s) (t_nth s) (t_merger s) (t_count s) (e_new s) (e_fin s) (e_search s) (e_sfin s) (rd_alive s) (rd_dirty s) (cl s) (c_reading s) (c_next s) (c_query s) (c_sort s) (c_nth s) v (c_irev s) (c_srev s) (c_usesnap s) (c_snap s) (c_count s) (m_pending s) (m_running s) (g_deny s) (g_last s) (g_id s) (g_dclean s) (g_cmd s) (g_started s).
Definition set_c_irev (v : rev) (s : st) : st := mkSt (t_input s) (t_paused s) (t_sort s) (t_nth s) (t_merger s) (t_count s) (e_new s) (e_fin s) (e_search s) (e_sfin s) (rd_alive s) (rd_dirty s) (cl s) (c_reading s) (c_next s) (c_query s) (c_sort s) (c_nth s) (c_deny s) v (c_srev s) (c_usesnap s) (c_snap s) (c_count s) (m_pending s) (m_running s) (g_deny s) (g_last s) (g_id s) (g_dclean s) (g_cmd s) (g_started s).
Definition set_c_srev (v : rev) (s : st) : st := mkSt (t_input s) (t_paused s) (t_sort s) (t_nth s) (t_merger s) (t_count s) (e_new s) (e_fin s) (e_search s) (e_sfin s) (rd_alive s) (rd_dirty s) (cl s) (c_reading s) (c_next s) (c_query s) (c_sort s) (c_nth s) (c_deny s) (c_irev s) v (c_usesnap s) (c_snap s) (c_count s) (m_pending s) (m_running s) (g_deny s) (g_last s) (g_id s) (g_dclean s) (g_cmd s) (g_started s).
Definition set_c_usesnap (v : bool) (s : st) : st := mkSt (t_input s) (t_paused s) (t_sort s) (t_nth s) (t_merger s) (t_count s) (e_new s) (e_fin s) (e_search s) (e_sfin s) (rd_alive s) (rd_dirty s) (cl s) (c_reading s) (c_next s) (c_query s) (c_sort s) (c_nth s) (c_deny s) (c_irev s) (c_srev s) v (c_snap s) (c_count s) (m_pending s) (m_running s) (g_deny s) (g_last s) (g_id s) (g_dclean s) (g_cmd s) (g_started s).
Definition set_c_snap (v : list item) (s : st) : st := mkSt (t_input s) (t_paused s) (t_sort s) (t_nth s) (t_merger s) (t_count s) (e_new s) (e_fin s) (e_search s) (e_sfin s) (rd_alive s) (rd_dirty s) (cl s) (c_reading s) (c_next s) (c_query s) (c_sort s) (c_nth s) (c_deny s) (c_irev s) (c_srev s) (c_usesnap s) v (c_count s) (m_pending s) (m_running s) (g_deny s) (g_last s) (g_id s) (g_dclean s) (g_cmd s) (g_started s).
Definition set_c_count (v : nat) (s : st) : st := mkSt (t_input s) (t_paused s) (t_sort s) (t_nth s) (t_merger s) (t_count s) (e_new s) (e_fin s) (e_search s) (e_sfin s) (rd_alive s) (rd_dirty s) (cl s) (c_reading s) (c_next s) (c_query s) (c_sort s) (c_nth s) (c_deny s) (c_irev s) (c_srev s) (c_usesnap s) (c_snap s) v (m_pending s) (m_running s) (g_deny s) (g_last s) (g_id s) (g_dclean s) (g_cmd s) (g_started s).
Definition set_m_pending (v : option mreq) (s : st) : st := mkSt (t_input s) (t_paused s) (t_sort s) (t_nth s) (t_merger s) (t_count s) (e_new s) (e_fin s) (e_search s) (e_sfin s) (rd_alive s) (rd_dirty s) (cl s) (c_reading s) (c_next s) (c_query s) (c_sort s) (c_nth s) (c_deny s) (c_irev s) (c_srev s) (c_usesnap s) (c_snap s) (c_count s) v (m_running s) (g_deny s) (g_last s) (g_id s) (g_dclean s) (g_cmd s) (g_started s).
Definition set_m_running (v : option mreq) (s : st) : st := mkSt (t_input s) (t_paused s) (t_sort s) (t_nth s) (t_merger s) (t_count s) (e_new s) (e_fin s) (e_search s) (e_sfin s) (rd_alive s) (rd_dirty s) (cl s) (c_reading s) (c_next s) (c_query s) (c_sort s) (c_nth s) (c_deny s) (c_irev s) (c_srev s) (c_usesnap s) (c_snap s) (c_count s) (m_pending s) v (g_deny s) (g_last s) (g_id s) (g_dclean s) (g_cmd s) (g_started s).
Definition set_g_deny (v : list Z) (s : st) : st := mkSt (t_input s) (t_paused s) (t_sort s) (t_nth s) (t_merger s) (t_count s) (e_new s) (e_fin s) (e_search s) (e_sfin s) (rd_alive s) (rd_dirty s) (cl s) (c_reading s) (c_next s) (c_query s) (c_sort s) (c_nth s) (c_deny s) (c_irev s) (c_srev s) (c_usesnap s) (c_snap s) (c_count s) (m_pending s) (m_running s) v (g_last s) (g_id s) (g_dclean s) (g_cmd s) (g_started s).
Definition set_g_last (v : option mreq) (s : st) : st := mkSt (t_input s) (t_paused s) (t_sort s) (t_nth s) (t_merger s) (t_count s) (e_new s) (e_fin s) (e_search s) (e_sfin s) (rd_alive s) (rd_dirty s) (cl s) (c_reading s) (c_next s) (c_query s) (c_sort s) (c_nth s) (c_deny s) (c_irev s) (c_srev s) (c_usesnap s) (c_snap s) (c_count s) (m_pending s) (m_running s) (g_deny s) v (g_id s) (g_dclean s) (g_cmd s) (g_started s).
Definition set_g_id (v : nat) (s : st) : st := mkSt (t_input s) (t_paused s) (t_sort s) (t_nth s) (t_merger s) (t_count s) (e_new s) (e_fin s) (e_search s) (e_sfin s) (rd_alive s) (rd_dirty s) (cl s) (c_reading s) (c_next s) (c_query s) (c_sort s) (c_nth s) (c_deny s) (c_irev s) (c_srev s) (c_usesnap s) (c_snap s) (c_count s) (m_pending s) (m_running s) (g_deny s) (g_last s) v (g_dclean s) (g_cmd s) (g_started s).
Definition set_g_dclean (v : bool) (s : st) : st := mkSt (t_input s) (t_paused s) (t_sort s) (t_nth s) (t_merger s) (t_count s) (e_new s) (e_fin s) (e_search s) (e_sfin s) (rd_alive s) (rd_dirty s) (cl s) (c_reading s) (c_next s) (c_query s) (c_sort s) (c_nth s) (c_deny s) (c_irev s) (c_srev s) (c_usesnap s) (c_snap s) (c_count s) (m_pending s) (m_running s) (g_deny s) (g_last s) (g_id s) v (g_cmd s) (g_started s).
Definition set_g_cmd (v : option cmd) (s : st) : st := mkSt (t_input s) (t_paused s) (t_sort s) (t_nth s) (t_merger s) (t_count s) (e_new s) (e_fin s) (e_search s) (e_sfin s) (rd_alive s) (rd_dirty s) (cl s) (c_reading s) (c_next s) (c_query s) (c_sort s) (c_nth s) (c_deny s) (c_irev s) (c_srev s) (c_usesnap s) (c_snap s) (c_count s) (m_pending s) (m_running s) (g_deny s) (g_last s) (g_id s) (g_dclean s) v (g_started s).
Definition set_g_started (v : option cmd) (s : st) : st := mkSt (t_input s) (t_paused s) (t_sort s) (t_nth s) (t_merger s) (t_count s) (e_new s) (e_fin s) (e_search s) (e_sfin s) (rd_alive s) (rd_dirty s) (cl s) (c_reading s) (c_next s) (c_query s) (c_sort s) (c_nth s) (c_deny s) (c_irev s) (c_srev s) (c_usesnap s) (c_snap s) (c_count s) (m_pending s) (m_running s) (g_deny s) (g_last s) (g_id s) (g_dclean s) (g_cmd s) v.

(* ---------------- terminal: one iteration of Terminal.Loop over an action list ---------------- *)
Inductive prim :=
| PSetQuery (q : str)            (* typing, deleting, clear-query, change-query(..): the query afterwards *)
| PToggleSort
| PExclude (ixs : list Z)        (* exclude / exclude-multi: indices of the current / selected items *)
| PChangeNth (n : nthv)
| PReload (c : cmd) (sync : bool)
| PToggleSearch | PEnableSearch | PDisableSearch.

Record rules := mkRules { ru_merge : bool;        (* eventBox.Update merge (commit b17bfdd); false = old overwrite *)
                          ru_toggle_or : bool }.  (* toggle-search: changed = changed || !paused (bd6d4c3); false = old assignment *)
Definition fixed_rules := mkRules true true.

Record uiacc := mkAcc { a_input : str; a_paused : bool; a_sort : bool; a_nth : nthv; a_newnth : option nthv;
                        a_cmd : option (cmd * bool); a_changed : bool; a_deny : list Z }.

Definition prim_step (ru : rules) (a : uiacc) (p : prim) : uiacc :=
  match p with
  | PSetQuery q => mkAcc q (a_paused a) (a_sort a) (a_nth a) (a_newnth a) (a_cmd a) (a_changed a) (a_deny a)
  | PToggleSort => mkAcc (a_input a) (a_paused a) (negb (a_sort a)) (a_nth a) (a_newnth a) (a_cmd a) true (a_deny a)
  | PExclude ixs => mkAcc (a_input a) (a_paused a) (a_sort a) (a_nth a) (a_newnth a) (a_cmd a) true (a_deny a ++ ixs)
  | PChangeNth n =>
      mkAcc (a_input a) (a_paused a) (a_sort a) n (Some n) (a_cmd a)
            (if Z.eqb n (a_nth a) then a_changed a else true) (a_deny a)
  | PReload c sync => mkAcc (a_input a) (a_paused a) (a_sort a) (a_nth a) (a_newnth a) (Some (c, sync)) (a_changed a) (a_deny a)
  | PToggleSearch =>
      let p' := negb (a_paused a) in
      mkAcc (a_input a) p' (a_sort a) (a_nth a) (a_newnth a) (a_cmd a)
            (if ru_toggle_or ru then a_changed a || negb p' else negb p') (a_deny a)
  | PEnableSearch => mkAcc (a_input a) false (a_sort a) (a_nth a) (a_newnth a) (a_cmd a) true (a_deny a)
  | PDisableSearch => mkAcc (a_input a) true (a_sort a) (a_nth a) (a_newnth a) (a_cmd a) (a_changed a) (a_deny a)
  end.

(* the closure passed to eventBox.Update(EvtSearchNew, ..) *)
Definition merge_req (ru : rules) (pending : option sreq) (n : sreq) : sreq :=
  match pending with
  | Some p =>
      if ru_merge ru then
        mkSreq (q_sort n)
               (match q_cmd n with Some _ => q_sync n | None => match q_cmd p with Some _ => q_sync p | None => q_sync n end end)
               (match q_nth n with Some x => Some x | None => q_nth p end)
               (match q_cmd n with Some c => Some c | None => q_cmd p end)
               (q_changed n || q_changed p)
               (if nonemptyb (q_deny p) && compat (q_rev p) (q_rev n) then q_deny p ++ q_deny n else q_deny n)
               (q_rev n)
      else n
  | None => n
  end.

Definition ui_step (ru : rules) (s : st) (ps : list prim) : st :=
  let a0 := mkAcc (t_input s) (t_paused s) (t_sort s) (t_nth s) None None false [] in
  let a := fold_left (prim_step ru) ps a0 in
  let changed := a_changed a || negb (str_eqb (t_input s) (a_input a)) in     (* changed || queryChanged *)
  let same_input := compat (r_rev (t_merger s)) (c_irev s) in
  let s1 := set_t_input (a_input a) (set_t_paused (a_paused a) (set_t_sort (a_sort a) (set_t_nth (a_nth a) s))) in
  let s2 := set_g_deny (deny_after_exclude same_input (g_deny s) (a_deny a)) s1 in
  let s3 := match a_cmd a with Some (c, _) => set_g_cmd (Some c) s2 | None => s2 end in
  if changed || (match a_cmd a with Some _ => true | None => false end) then
    let n := mkSreq (a_sort a) (match a_cmd a with Some (_, y) => y | None => false end) (a_newnth a)
                    (match a_cmd a with Some (c, _) => Some c | None => None end)
                    changed (a_deny a) (r_rev (t_merger s)) in
    set_e_search (Some (merge_req ru (e_search s) n)) s3
  else s3.

(* ---------------- coordinator ---------------- *)
(* input(): terminal.Input() overrides the coordinator's query unless search is paused *)
Definition c_input (s : st) : st := if t_paused s then s else set_c_query (t_input s) s.

(* matcher.Reset(snapshot, input(), cancel, !reading, sort, snapshotRevision) *)
Definition reset (s : st) : st :=
  let s := c_input s in
  let r := mkMreq (g_id s) (c_snap s) (c_query s) (negb (c_reading s)) (c_sort s) (c_srev s) (c_nth s) (c_deny s) in
  set_m_pending (Some r) (set_g_last (Some r) (set_g_id (S (g_id s)) s)).

Definition clear_deny (s : st) : st := set_c_deny [] (set_g_dclean true s).

(* restart(command): new reader, empty chunk list, major revision bump *)
Definition restart (c : cmd) (s : st) : st :=
  let s := if c_usesnap s then set_g_dclean false s else clear_deny s in
  set_c_reading true (set_cl [] (set_c_irev (bump_major (c_irev s))
    (set_rd_alive true (set_rd_dirty false (set_g_deny [] (set_g_started (Some c) s)))))).

(* case EvtReadNew, EvtReadFin (fin = true for EvtReadFin; a pending EvtReadNew is deleted when EvtReadFin is set) *)
Definition coord_read (s : st) : st :=
  if negb (e_new s || e_fin s) then s else
  let fin := e_fin s in
  let s := set_e_new false (set_e_fin false s) in
  match fin, c_next s with
  | true, Some c => set_c_next None (restart c s)
  | _, _ =>
      let s := set_c_reading (c_reading s && negb fin) s in
      let s := if c_usesnap s && fin then set_c_usesnap false (clear_deny s) else s in
      let s := if c_usesnap s then s else
                 let s := set_c_query (if compat (c_srev s) (c_irev s) then c_query s else []) s in
                 set_c_snap (cl s) (set_c_count (length (cl s)) (set_c_srev (c_irev s) s)) in
      reset (set_t_count (c_count s) s)
  end.

(* case EvtSearchNew *)
Definition coord_search (s : st) : st :=
  match e_search s with
  | None => s
  | Some v =>
      let s := set_e_search None s in
      let s := set_c_sort (q_sort v) s in
      let bump1 := nonemptyb (q_deny v) && compat (q_rev v) (c_irev s) in
      let s := set_c_deny (if bump1 then c_deny s ++ q_deny v else c_deny s) s in
      let s := match q_nth v with Some n => set_c_nth n s | None => s end in
      let s := set_c_irev (if bump1 || (match q_nth v with Some _ => true | None => false end)
                           then bump_minor (c_irev s) else c_irev s) s in
      let s := match q_cmd v with Some _ => set_c_usesnap (q_sync v) s | None => s end in
      let s := match q_cmd v with
               | Some c => if c_reading s then set_c_next (Some c) s (* reader.terminate(); nextCommand = command *)
                           else restart c s
               | None => s
               end in
      if negb (q_changed v) then s else
      let s := if c_usesnap s then s else
                 if (match q_cmd v with None => true | Some _ => false end) || negb (Nat.eqb (length (cl s)) 0) then
                   let s := set_c_query (if rev_eqb (c_srev s) (c_irev s) then c_query s else []) s in
                   set_c_snap (cl s) (set_c_srev (c_irev s) s)
                 else s in
      reset s
  end.

(* case EvtSearchFin: terminal.UpdateList(merger) *)
Definition coord_sfin (s : st) : st :=
  match e_sfin s with
  | None => s
  | Some m => set_e_sfin None (set_t_merger m s)
  end.

(* ---------------- labels ---------------- *)
Inductive label :=
| LPush (its : list item)   (* reader goroutine: pusher() appended lines to the chunk list *)
| LPoll                     (* reader event poller: EvtReadNew if something was pushed *)
| LFin                      (* reader: EOF or killed -> EvtReadFin (the poller has stopped: reader.fin waits for it) *)
| LUi (ps : list prim)      (* terminal loop: one action list *)
| LCoordRead | LCoordSearch | LCoordFin     (* coordinator, one event kind of a round *)
| LTake                     (* matcher: Loop picks up the latest request *)
| LPublish                  (* matcher: scan finished -> EvtSearchFin *)
| LCancel.                  (* matcher: scan cancelled because a newer request is waiting *)

Definition step_r (ru : rules) (s : st) (l : label) : st :=
  match l with
  | LPush its => if rd_alive s then set_cl (cl s ++ its) (set_rd_dirty true s) else s
  | LPoll => if rd_alive s && rd_dirty s then set_e_new true (set_rd_dirty false s) else s
  | LFin => if rd_alive s then set_e_fin true (set_rd_alive false (set_rd_dirty false s)) else s
  | LUi ps => ui_step ru s ps
  | LCoordRead => coord_read s
  | LCoordSearch => coord_search s
  | LCoordFin => coord_sfin s
  | LTake => match m_running s, m_pending s with
             | None, Some r => set_m_running (Some r) (set_m_pending None s)
             | _, _ => s
             end
  | LPublish => match m_running s with
                | Some r => set_e_sfin (Some r) (set_m_running None s)
                | None => s
                end
  | LCancel => match m_running s, m_pending s with
               | Some _, Some _ => set_m_running None s
               | _, _ => s
               end
  end.

Definition step := step_r fixed_rules.
Definition run_r (ru : rules) (s : st) (sched : list label) : st := fold_left (step_r ru) sched s.
Definition run := run_r fixed_rules.

(* start of the interactive phase: --query q, sorting as given, --nth n; reader started, nothing loaded yet,
   the terminal shows EmptyMerger(revision{}) *)
Definition init (q : str) (sort : bool) (n : nthv) : st :=
  mkSt q false sort n (mkMreq 0 [] q false sort (0%nat, 0%nat) n []) 0
       false false None None
       true false []
       true None [] sort n [] (0%nat, 0%nat) (0%nat, 0%nat) false [] 0
       None None
       [] None 1 true None None.

(* ---------------- observations ---------------- *)
(* the query in effect: the query line, or - while search is disabled - the query of the last search *)
Definition effq (s : st) : str := if t_paused s then c_query s else t_input s.
Definition cur_cfg (s : st) : cfg := mkCfg (effq s) (t_sort s) (t_nth s) (g_deny s).
Definition req_cfg (r : mreq) : cfg := mkCfg (r_query r) (r_sort r) (r_nth r) (r_deny r).

(* nothing left to happen: no event in the box, reader finished, matcher idle *)
Definition quiescent (s : st) : bool :=
  negb (e_new s) && negb (e_fin s) && negb (rd_alive s) &&
  match e_search s, e_sfin s, m_pending s, m_running s with None, None, None, None => true | _, _, _, _ => false end.

(* internal steps that drain everything once the user and the producer have stopped
   (a superseded command is killed -> LFin; a queued reload restarts the reader, whose command ends -> LFin) *)
Definition drain_labels : list label :=
  [LFin; LCoordRead; LFin; LCoordRead; LCoordSearch; LFin; LCoordRead;
   LPublish; LTake; LPublish; LCoordFin].
