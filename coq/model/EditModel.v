(* C09 model: the editing / navigation / selection cases of doAction in src/terminal.go restated,
   with delChar, rubout, findLastMatch/findFirstMatch (the two fixed word regexes re-implemented as
   scanners), vmove, vset, constrain (single-line items), currentItem, selectItem, deselectItem,
   toggleItem, UpdateList (cursor tracking, selection kept / dropped), truncateQuery, output.
   t.input / t.cx / t.yanked are a rune list, an index and a rune list; every slice expression is
   checked (a Go slice-bounds panic is Err OutOfRange).  t.selected (map index -> (time, item)) is the
   list of selected items in order of their time stamps (sortSelected), indexes unique.
   No proofs here. *)
From Fzf Require Import Prelude EditSpec.
Open Scope Z_scope.

Record cfg := mkCfg {
  c_multi : Z;            (* t.multi: 0 = off, 2147483647 = unlimited *)
  c_cycle : bool;         (* t.cycle *)
  c_default_layout : bool;(* t.layout == layoutDefault *)
  c_inputless : bool;     (* t.inputless (--no-input) *)
  c_track : bool;         (* t.track != trackDisabled (--track) *)
  c_maxitems : Z;         (* t.maxItems(): list lines of the window *)
  c_scrolloff : Z;        (* t.scrollOff *)
  c_fileword : bool       (* --filepath-word *)
}.

Record st := mkSt {
  s_input : str; s_cx : nat; s_yanked : str;
  s_res : list item;      (* t.merger, in display order *)
  s_cy : Z; s_offset : Z;
  s_sel : list item
}.

Definition take {A} (l : list A) (n : nat) : res (list A) :=      (* l[:n] *)
  if Nat.leb n (length l) then Ok (firstn n l) else Err OutOfRange.
Definition drop {A} (l : list A) (n : nat) : res (list A) :=      (* l[n:] *)
  if Nat.leb n (length l) then Ok (skipn n l) else Err OutOfRange.
Definition slice {A} (l : list A) (a b : nat) : res (list A) :=   (* l[a:b] *)
  if Nat.leb a b then (do p <- take l b; drop p a) else Err OutOfRange.

Definition constrain_z (v lo hi : Z) : Z := if v <? lo then lo else if hi <? v then hi else v.  (* util.Constrain *)

Section Model.
  Variable is_alnum : Z -> bool.      (* [\pL\pN]: unicode.IsLetter || unicode.IsNumber, supplied per run *)
  Variable c : cfg.

  (* wordRubout = "[^\pL\pN][\pL\pN]" / "/[^/]",  wordNext = "[\pL\pN][^\pL\pN]|(.$)" / "[^/]/|(.$)" *)
  Definition isw (x : Z) : bool := if c_fileword c then negb (x =? PATHSEP) else is_alnum x.
  Definition rx_word_rubout (a b : Z) : bool := negb (isw a) && isw b.
  Definition rx_space_nonspace (a b : Z) : bool := is_blank a && negb (is_blank b).     (* "\s\S" *)

  (* start of the LAST match of a two-character pattern (FindAllStringIndex, last element).
     Matches of these patterns cannot overlap, so every match position is reported. *)
  Fixpoint find_last (p2 : Z -> Z -> bool) (s : str) : option nat :=
    match s with
    | [] => None
    | a :: t =>
        match find_last p2 t with
        | Some j => Some (S j)
        | None => match t with b :: _ => if p2 a b then Some O else None | [] => None end
        end
    end.
  Definition find_last_plus1 (p2 : Z -> Z -> bool) (s : str) : nat :=   (* findLastMatch(..) + 1, -1 when none *)
    match find_last p2 s with Some i => S i | None => O end.

  (* start of the FIRST match of wordNext: a word character followed by a non-word one, or the last
     character of the string unless it is a newline *)
  Fixpoint find_first_next (s : str) : option nat :=
    match s with
    | [] => None
    | a :: t =>
        match t with
        | b :: _ => if isw a && negb (isw b) then Some O
                    else match find_first_next t with Some j => Some (S j) | None => None end
        | [] => if a =? NLc then None else Some O
        end
    end.
  Definition find_first_plus1 (s : str) : nat := match find_first_next s with Some i => S i | None => O end.

  Definition count (s : st) : Z := Z.of_nat (length (s_res s)).

  Definition set_edit (s : st) (inp : str) (cx : nat) (y : str) : st :=
    mkSt inp cx y (s_res s) (s_cy s) (s_offset s) (s_sel s).
  Definition set_cy (s : st) (cy : Z) : st := mkSt (s_input s) (s_cx s) (s_yanked s) (s_res s) cy (s_offset s) (s_sel s).
  Definition set_sel (s : st) (sel : list item) : st :=
    mkSt (s_input s) (s_cx s) (s_yanked s) (s_res s) (s_cy s) (s_offset s) sel.

  (* t.currentItem() *)
  Definition current_item (s : st) : res (option item) :=
    if (0 <=? s_cy s) && (0 <? count s) && (s_cy s <? count s)
    then do it <- get (s_res s) (Z.to_nat (s_cy s)); Ok (Some it) else Ok None.

  (* --- editing --- *)
  Definition insert_at (s : st) (t : str) : res st :=
    do suffix <- drop (s_input s) (s_cx s);
    do prefix <- take (s_input s) (s_cx s);
    Ok (set_edit s (prefix ++ t ++ suffix) (s_cx s + length t) (s_yanked s)).

  Definition rubout (s : st) (p2 : Z -> Z -> bool) : res st :=
    let pcx := s_cx s in
    do after <- drop (s_input s) pcx;
    do pre <- take (s_input s) pcx;
    let ncx := find_last_plus1 p2 pre in
    do y <- slice (s_input s) ncx pcx;
    do keep <- take (s_input s) ncx;
    Ok (set_edit s (keep ++ after) ncx y).

  Definition do_edit (s : st) (a : act) : res st :=
    let inp := s_input s in let cx := s_cx s in
    match a with
    | AChar ch => insert_at s [ch]
    | APut t => insert_at s t
    | ABackwardDeleteChar =>
        if Nat.ltb 0 cx then
          do p <- take inp (cx - 1); do q <- drop inp cx; Ok (set_edit s (p ++ q) (cx - 1) (s_yanked s))
        else Ok s
    | ADeleteChar =>       (* delChar *)
        if Nat.ltb 0 (length inp) && Nat.ltb cx (length inp) then
          do p <- take inp cx; do q <- drop inp (cx + 1); Ok (set_edit s (p ++ q) cx (s_yanked s))
        else Ok s
    | ABackwardChar => Ok (if Nat.ltb 0 cx then set_edit s inp (cx - 1) (s_yanked s) else s)
    | AForwardChar => Ok (if Nat.ltb cx (length inp) then set_edit s inp (cx + 1) (s_yanked s) else s)
    | ABeginningOfLine => Ok (set_edit s inp 0 (s_yanked s))
    | AEndOfLine => Ok (set_edit s inp (length inp) (s_yanked s))
    | AKillLine =>
        if Nat.ltb cx (length inp) then
          do y <- drop inp cx; do p <- take inp cx; Ok (set_edit s p cx y)
        else Ok s
    | AUnixLineDiscard =>
        if Nat.ltb 0 cx then
          do y <- take inp cx; do q <- drop inp cx; Ok (set_edit s q 0 y)
        else Ok s
    | AUnixWordRubout => if Nat.ltb 0 cx then rubout s rx_space_nonspace else Ok s
    | ABackwardKillWord => if Nat.ltb 0 cx then rubout s rx_word_rubout else Ok s
    | ABackwardWord => do pre <- take inp cx; Ok (set_edit s inp (find_last_plus1 rx_word_rubout pre) (s_yanked s))
    | AForwardWord => do suf <- drop inp cx; Ok (set_edit s inp (cx + find_first_plus1 suf) (s_yanked s))
    | AKillWord =>
        do suf <- drop inp cx;
        let ncx := (cx + find_first_plus1 suf)%nat in
        if Nat.ltb cx ncx then
          do y <- slice inp cx ncx; do p <- take inp cx; do q <- drop inp ncx; Ok (set_edit s (p ++ q) cx y)
        else Ok s
    | AYank => insert_at s (s_yanked s)
    | AClearQuery => Ok (set_edit s [] 0 (s_yanked s))
    | ACancel => Ok (match inp with [] => s (* would quit *) | _ => set_edit s [] 0 inp end)
    | AChangeQuery t => Ok (set_edit s t (length t) (s_yanked s))
    | AReplaceQuery =>
        do cur <- current_item s;
        Ok (match cur with Some it => set_edit s (snd it) (length (snd it)) (s_yanked s) | None => s end)
    | ATruncate =>         (* truncateQuery, skipped when inputless *)
        if c_inputless c then Ok s else
        do inp' <- take inp (Nat.min (length inp) MAXQ);
        Ok (set_edit s inp' (Nat.min cx (length inp')) (s_yanked s))
    | _ => Ok s
    end.

  (* --- list cursor --- *)
  Definition vset (s : st) (o : Z) : st := set_cy s (constrain_z o 0 (count s - 1)).
  Definition vmove (s : st) (o : Z) : st :=
    let o := if c_default_layout c then o else - o in
    let dest := s_cy s + o in
    let dest :=
      if c_cycle c then
        let mx := count s - 1 in
        if mx <? dest then (if s_cy s =? mx then 0 else dest)
        else if dest <? 0 then (if s_cy s =? 0 then mx else dest)
        else dest
      else dest in
    vset s dest.

  (* the two inner `for {}` loops of constrain (scroll offset adjustment), single-line items *)
  Fixpoint adjust (fuel : nat) (phase1 : bool) (cy maxLines so minOffset maxOffset newOffset : Z) : res Z :=
    match fuel with
    | O => Err OutOfFuel
    | S fuel =>
        let linesBefore := cy - newOffset in
        let linesAfter := maxLines - (linesBefore + 1) in
        if (linesBefore <? so) && (linesAfter <? so) then Ok newOffset
        else
          let n' := if negb phase1 && (linesBefore <? so) then Z.max minOffset (newOffset - 1)
                    else if phase1 && (linesAfter <? so) then Z.min maxOffset (newOffset + 1)
                    else newOffset in
          if n' =? newOffset then Ok newOffset
          else adjust fuel phase1 cy maxLines so minOffset maxOffset n'
    end.

  Fixpoint constrain_loop (tries : nat) (cnt maxLines cy offset : Z) : res (Z * Z) :=
    match tries with
    | O => Ok (cy, offset)
    | S tries =>
        let numItems := maxLines in
        let cy := constrain_z cy 0 (Z.max 0 (cnt - 1)) in
        let minOffset := Z.max (cy - numItems + 1) 0 in
        let maxOffset := Z.max (Z.min (cnt - numItems) cy) 0 in
        let prevOffset := offset in
        let offset := constrain_z offset minOffset maxOffset in
        do offset <-
          (if 0 <? c_scrolloff c then
             let so := Z.min (maxLines / 2) (c_scrolloff c) in
             let fuel := S (S (Z.to_nat maxLines)) in
             do o1 <- adjust fuel false cy maxLines so minOffset maxOffset offset;
             adjust fuel true cy maxLines so minOffset maxOffset o1
           else Ok offset);
        if offset =? prevOffset then Ok (cy, offset) else constrain_loop tries cnt maxLines cy offset
    end.

  Definition constrain (s : st) : res st :=
    let cnt := count s in
    let maxLines := c_maxitems c in
    let offset := constrain_z (s_offset s) 0 cnt in
    do r <- constrain_loop (Z.to_nat maxLines) cnt maxLines (s_cy s) offset;
    Ok (mkSt (s_input s) (s_cx s) (s_yanked s) (s_res s) (fst r) (snd r) (s_sel s)).

  (* --- selection --- *)
  Definition select_item (it : item) (sel : list item) : bool * list item :=
    if c_multi c <=? Z.of_nat (length sel) then (false, sel)
    else if sel_mem (idx it) sel then (true, sel)
    else (true, sel ++ [it]).
  Definition deselect_item (it : item) (sel : list item) : list item :=
    filter (fun x => negb (idx x =? idx it)) sel.
  Definition toggle_item (it : item) (sel : list item) : bool * list item :=
    if negb (sel_mem (idx it) sel) then select_item it sel else (true, deselect_item it sel).

  (* the local closure toggle() *)
  Definition toggle_current (s : st) : res (bool * st) :=
    do cur <- current_item s;
    match cur with
    | Some it => let '(ok, sel) := toggle_item it (s_sel s) in Ok (ok, set_sel s sel)
    | None => Ok (false, s)
    end.

  Fixpoint select_all_loop (rs : list item) (sel : list item) : list item :=
    match rs with
    | [] => sel
    | it :: r => let '(ok, sel') := select_item it sel in if ok then select_all_loop r sel' else sel'
    end.
  Fixpoint deselect_all_loop (rs : list item) (sel : list item) : list item :=
    match rs with
    | [] => sel
    | it :: r => match sel with [] => sel | _ => deselect_all_loop r (deselect_item it sel) end
    end.
  (* first loop of toggle-all: positions of selected results (prevIndexes), deselecting them *)
  Fixpoint toggle_all_first (rs : list item) (i : nat) (sel : list item) : list nat * list item :=
    match rs with
    | [] => ([], sel)
    | it :: r =>
        match sel with
        | [] => ([], sel)
        | _ => if sel_mem (idx it) sel
               then let '(ps, sel') := toggle_all_first r (S i) (deselect_item it sel) in (i :: ps, sel')
               else toggle_all_first r (S i) sel
        end
    end.
  Fixpoint toggle_all_second (rs : list item) (i : nat) (prev : list nat) (sel : list item) : list item :=
    match rs with
    | [] => sel
    | it :: r =>
        if existsb (Nat.eqb i) prev then toggle_all_second r (S i) prev sel
        else let '(ok, sel') := select_item it sel in if ok then toggle_all_second r (S i) prev sel' else sel'
    end.

  Definition multi_on : bool := 0 <? c_multi c.

  Definition toggle_and_move (s : st) (o : Z) : res st :=     (* actToggleDown / actToggleUp *)
    if multi_on && (0 <? count s) then
      do r <- toggle_current s;
      Ok (if fst r then vmove (snd r) o else snd r)
    else Ok s.

  Definition page_move (s : st) (half up : bool) : st :=
    let maxItems := c_maxitems c in
    let lines := if half then maxItems / 2 else maxItems - 1 in
    let lines := Z.max 1 lines in
    let direction := if up then 1 else -1 in
    let direction := if c_default_layout c then direction else - direction in
    vset s (s_cy s + direction * lines).

  Definition find_index (i : Z) (rs : list item) : option nat :=
    (fix go (rs : list item) (k : nat) : option nat :=
       match rs with [] => None | it :: r => if idx it =? i then Some k else go r (S k) end) rs O.

  (* UpdateList: revision compatible = not a reload; --tail trimming is not modelled *)
  Definition update_list (s : st) (rs : list item) (reload : bool) : res st :=
    do prevIndex <-
      (if negb reload && c_track c then
         if 0 <? count s then
           do cur <- current_item s; Ok (match cur with Some it => idx it | None => -1 end)
         else Ok (match rs with it :: _ => idx it | [] => -1 end)
       else Ok (-1));
    let sel := if reload then [] else s_sel s in
    let cnt := Z.of_nat (length rs) in
    let '(cy, offset) :=
      if 0 <=? prevIndex then
        let pos := s_cy s - s_offset s in
        match find_index prevIndex rs with
        | Some i => (Z.of_nat i, Z.of_nat i - pos)
        | None => if cnt <? s_cy s then (cnt - Z.min cnt (c_maxitems c) + pos, s_offset s) else (s_cy s, s_offset s)
        end
      else (s_cy s, s_offset s) in
    Ok (mkSt (s_input s) (s_cx s) (s_yanked s) rs cy offset sel).

  Definition do_list (s : st) (a : act) : res st :=
    match a with
    | AUp => Ok (vmove s 1)
    | ADown => Ok (vmove s (-1))
    | AFirst => constrain (vset s 0)
    | ALast => constrain (vset s (count s - 1))
    | APos n =>
        let n := if 0 <? n then n - 1 else if n <? 0 then n + count s else n in
        constrain (vset s n)
    | APageUp => Ok (page_move s false true)
    | APageDown => Ok (page_move s false false)
    | AHalfPageUp => Ok (page_move s true true)
    | AHalfPageDown => Ok (page_move s true false)
    | AToggle => if multi_on && (0 <? count s) then do r <- toggle_current s; Ok (snd r) else Ok s
    | AToggleIn => if c_default_layout c then toggle_and_move s (-1) else toggle_and_move s 1
    | AToggleOut => if c_default_layout c then toggle_and_move s 1 else toggle_and_move s (-1)
    | ASelect =>
        do cur <- current_item s;
        Ok (match cur with
            | Some it => if multi_on && negb (sel_mem (idx it) (s_sel s))
                         then set_sel s (snd (select_item it (s_sel s))) else s
            | None => s end)
    | ADeselect =>
        do cur <- current_item s;
        Ok (match cur with
            | Some it => if multi_on && sel_mem (idx it) (s_sel s) then set_sel s (deselect_item it (s_sel s)) else s
            | None => s end)
    | ASelectAll => Ok (if multi_on then set_sel s (select_all_loop (s_res s) (s_sel s)) else s)
    | ADeselectAll => Ok (if multi_on then set_sel s (deselect_all_loop (s_res s) (s_sel s)) else s)
    | AToggleAll =>
        Ok (if multi_on then
              let '(prev, sel) := toggle_all_first (s_res s) O (s_sel s) in
              set_sel s (toggle_all_second (s_res s) O prev sel)
            else s)
    | AClearSelection => Ok (if multi_on then set_sel s [] else s)
    | ARender => constrain s
    | AUpdate rs reload => update_list s rs reload
    | _ => Ok s
    end.

  Definition is_edit (a : act) : bool :=
    match a with
    | AChar _ | APut _ | ABackwardDeleteChar | ADeleteChar | ABackwardChar | AForwardChar | ABeginningOfLine
    | AEndOfLine | AKillLine | AUnixLineDiscard | AUnixWordRubout | ABackwardKillWord | ABackwardWord
    | AForwardWord | AKillWord | AYank | AClearQuery | ACancel | AChangeQuery _ | AReplaceQuery | ATruncate => true
    | _ => false
    end.
  (* ATruncate, ARender, AUpdate are not run by doAction: no inputless restore for them *)
  Definition is_action (a : act) : bool :=
    match a with ATruncate | ARender | AUpdate _ _ => false | _ => true end.

  (* doAction: the case, then (inputless) "always just discard the change" *)
  Definition do_action (s : st) (a : act) : res st :=
    do s1 <- (if is_edit a then do_edit s a else do_list s a);
    if c_inputless c && is_action a
    then Ok (set_edit s1 (s_input s) (length (s_input s)) (s_yanked s1))
    else Ok s1.

  Fixpoint run (s : st) (acts : list act) : res st :=
    match acts with
    | [] => Ok s
    | a :: r => do s' <- do_action s a; run s' r
    end.

  (* t.output(): what accept prints (without --print-query/--expect/print()) *)
  Definition output (s : st) : res (list item) :=
    match s_sel s with
    | [] => do cur <- current_item s; Ok (match cur with Some it => [it] | None => [] end)
    | sel => Ok sel
    end.
End Model.
