(* C10 model: src/tokenizer.go restated (awkTokenizer, Tokenize, withPrefixLengths,
   newRange, ParseRange, RangesToString, Transform, StripLastDelimiter, JoinTokens) plus
   the nth handling of src/pattern.go (transformInput, iter) and item.acceptNth.
   Text is a rune sequence (what util.Chars holds); positions and prefix lengths are
   rune counts.  UTF-8 decoding (util.ToChars) is outside the model.
   Library functions are restated by their documented meaning: strings.SplitAfter
   (FieldSpec.split_after), strings.Split/HasPrefix/HasSuffix/Contains/TrimSuffix,
   strconv.Atoi/Itoa, strings.TrimRightFunc(unicode.IsSpace).
   regexp.FindAllStringIndex is an INPUT: DRegex carries the function text -> locations
   (the harness supplies the finite part of it that a case needs).
   Every slice/index access is checked. *)
From Fzf Require Import Prelude FieldSpec.
Open Scope Z_scope.

Record token := mkTok { t_text : str; t_prefix : Z }.   (* Token{text, prefixLength} *)

Inductive delimiter :=
| DAwk                                        (* Delimiter{} *)
| DStr (sep : str)                            (* Delimiter{str: &sep} *)
| DRegex (rx : str -> list (nat * nat)).      (* Delimiter{regex: rx}; rx = FindAllStringIndex(_, -1) *)

Definition is_awk (d : delimiter) : bool := match d with DAwk => true | _ => false end.

(* s[b:e] *)
Definition slice (s : str) (b e : nat) : res str :=
  if Nat.leb b e && Nat.leb e (length s) then Ok (firstn (e - b) (skipn b s)) else Err OutOfRange.

(* ---- withPrefixLengths ---- *)
Fixpoint with_prefix_lengths (tokens : list str) (begin : Z) : list token :=
  match tokens with
  | [] => []
  | t :: r => mkTok t begin :: with_prefix_lengths r (begin + Z.of_nat (length t))
  end.

(* ---- awkTokenizer: 3-state machine.  The current token input[begin:end] is kept as
   the (reversed) list of its characters: in states black/white `end` is always idx+1. ---- *)
Inductive awk_state := AwkNil | AwkBlack | AwkWhite.

Fixpoint awk_loop (st : awk_state) (cur : str) (ret : list str) (pl : Z) (s : str) : list str * Z :=
  match s with
  | [] => (rev (match st with AwkNil => ret | _ => rev cur :: ret end), pl)   (* if begin < end { append } *)
  | r :: t =>
      let white := is_blank r in
      match st with
      | AwkNil => if white then awk_loop AwkNil cur ret (pl + 1) t
                  else awk_loop AwkBlack [r] ret pl t
      | AwkBlack => awk_loop (if white then AwkWhite else AwkBlack) (r :: cur) ret pl t
      | AwkWhite => if white then awk_loop AwkWhite (r :: cur) ret pl t
                    else awk_loop AwkBlack [r] (rev cur :: ret) pl t
      end
  end.
Definition awk_tokenizer (input : str) : list str * Z := awk_loop AwkNil [] [] 0 input.

(* ---- Tokenize ---- *)
Fixpoint regex_tokens (text : str) (begin : nat) (locs : list (nat * nat)) : res (list str) :=
  match locs with
  | [] => if Nat.ltb begin (length text)
          then do t <- slice text begin (length text); Ok [t] else Ok []
  | (_, e) :: r => do t <- slice text begin e; do rest <- regex_tokens text e r; Ok (t :: rest)
  end.

Definition tokenize (text : str) (d : delimiter) : res (list token) :=
  match d with
  | DAwk => let (tokens, pl) := awk_tokenizer text in Ok (with_prefix_lengths tokens pl)
  | DStr sep => Ok (with_prefix_lengths (split_after sep text) 0)
  | DRegex rx => do tokens <- regex_tokens text 0 (rx text); Ok (with_prefix_lengths tokens 0)
  end.

(* ---- strings / strconv helpers ---- *)
Definition has_prefix (p s : str) : bool := is_prefix p s.
Definition has_suffix (p s : str) : bool := is_prefix (rev p) (rev s).
Fixpoint contains (sub s : str) : bool :=
  is_prefix sub s || match s with [] => false | _ :: t => contains sub t end.
Definition trim_suffix (s suffix : str) : str :=
  if has_suffix suffix s then firstn (length s - length suffix) s else s.

(* strings.Split(s, sep), sep non-empty: leftmost non-overlapping occurrences removed *)
Fixpoint split_go (sep : str) (skip : nat) (cur : str) (s : str) : list str :=
  match s with
  | [] => [rev cur]
  | c :: t =>
      match skip with
      | S k => split_go sep k cur t
      | O => if is_prefix sep s then rev cur :: split_go sep (length sep - 1) [] t
             else split_go sep 0 (c :: cur) t
      end
  end.
Definition split (sep s : str) : list str := split_go sep 0 [] s.

Definition is_digit (c : Z) : bool := (48 <=? c) && (c <=? 57).
Definition digits_value (ds : str) : Z := fold_left (fun v d => v * 10 + (d - 48)) ds 0.
Definition INT_MIN : Z := - 9223372036854775808.
Definition INT_MAX : Z := 9223372036854775807.
(* strconv.Atoi: optional sign, one or more decimal digits, value in int64 *)
Definition atoi (s : str) : option Z :=
  let '(neg, ds) := match s with
                    | c :: r => if c =? 45 then (true, r) else if c =? 43 then (false, r) else (false, s)
                    | [] => (false, s)
                    end in
  match ds with
  | [] => None
  | _ => if forallb is_digit ds then
           let v := if neg then - digits_value ds else digits_value ds in
           if (INT_MIN <=? v) && (v <=? INT_MAX) then Some v else None
         else None
  end.

(* ---- Range, newRange, ParseRange, RangesToString ---- *)
Definition range := (Z * Z)%type.       (* begin, end; rangeEllipsis = 0 *)

Definition new_range (b e : Z) : range :=
  let b := if (b =? 1) && negb (e =? 1) then 0 else b in
  let e := if e =? -1 then 0 else e in
  (b, e).

Definition DD : str := [46; 46].

Definition parse_range (s : str) : option range :=
  if str_eqb s DD then Some (new_range 0 0)
  else if has_prefix DD s then
    match atoi (skipn 2 s) with
    | Some e => if e =? 0 then None else Some (new_range 0 e)
    | None => None
    end
  else if has_suffix DD s then
    match atoi (firstn (length s - 2) s) with
    | Some b => if b =? 0 then None else Some (new_range b 0)
    | None => None
    end
  else if contains DD s then
    match split DD s with
    | [n0; n1] =>
        match atoi n0, atoi n1 with
        | Some b, Some e =>
            if (b =? 0) || (e =? 0) || ((b <? 0) && (0 <? e)) then None else Some (new_range b e)
        | _, _ => None
        end
    | _ => None
    end
  else
    match atoi s with
    | Some n => if n =? 0 then None else Some (new_range n n)
    | None => None
    end.

Definition range_to_string (r : range) : str :=
  let (b, e) := r in
  if (b =? 0) && (e =? 0) then DD
  else if b =? e then itoa b
  else
    (if b =? 0 then [] else itoa b) ++
    (if b =? -1 then [] else DD ++ (if e =? 0 then [] else itoa e)).
Definition ranges_to_string (rs : list range) : str := concat_map_sep 44 (map range_to_string rs).

(* ---- JoinTokens ---- *)
Definition join_tokens (tokens : list token) : str := concat (map t_text tokens).

(* ---- Transform ---- *)
Definition adj (n i : Z) : Z := if i <? 0 then i + n + 1 else i.

(* for idx := begin; idx <= end; idx++ { if idx >= 1 && idx <= numTokens { parts = append(..) } } *)
Fixpoint collect (tokens : list token) (n : Z) (fuel : nat) (idx e : Z) : res (list str) :=
  match fuel with
  | O => if idx <=? e then Err OutOfFuel else Ok []
  | S k =>
      if idx <=? e then
        if (1 <=? idx) && (idx <=? n) then
          do t <- get tokens (Z.to_nat (idx - 1));
          do r <- collect tokens n k (idx + 1) e;
          Ok (t_text t :: r)
        else collect tokens n k (idx + 1) e
      else Ok []
  end.

Definition transform_one (tokens : list token) (r : range) : res token :=
  let n := Z.of_nat (length tokens) in
  let (rb, re) := r in
  do pm <-
    (if rb =? re then
       if rb =? 0 then Ok ([join_tokens tokens], 0)
       else
         let idx := adj n rb in
         if (1 <=? idx) && (idx <=? n) then
           do t <- get tokens (Z.to_nat (idx - 1)); Ok ([t_text t], idx - 1)
         else Ok ([], 0)
     else
       let '(b, e) :=
         if rb =? 0 then (1, adj n re)
         else if re =? 0 then (adj n rb, n)
         else (adj n rb, adj n re) in
       do parts <- collect tokens n (Z.to_nat (e - b + 1)) b e;
       Ok (parts, Z.max 0 (b - 1)));
  let '(parts, min_idx) := pm in
  let merged := concat parts in
  do pl <- (if min_idx <? n then do t <- get tokens (Z.to_nat min_idx); Ok (t_prefix t) else Ok 0);
  Ok (mkTok merged pl).

Fixpoint transform (tokens : list token) (with_nth : list range) : res (list token) :=
  match with_nth with
  | [] => Ok []
  | r :: rest => do t <- transform_one tokens r; do ts <- transform tokens rest; Ok (t :: ts)
  end.

(* ---- StripLastDelimiter ---- *)
Definition strip_last_delimiter (s : str) (d : delimiter) : res str :=
  do s1 <-
    match d with
    | DStr sep => Ok (trim_suffix s sep)
    | DRegex rx =>
        match rev (rx s) with
        | (b, e) :: _ => if Nat.eqb e (length s) then slice s 0 b else Ok s
        | [] => Ok s
        end
    | DAwk => Ok s
    end;
  Ok (trim_right is_space s1).

(* ---- pattern.go: transformInput ---- *)
Fixpoint map_last {A} (f : A -> res A) (l : list A) : res (list A) :=
  match l with
  | [] => Ok []
  | [x] => do y <- f x; Ok [y]
  | x :: r => do r' <- map_last f r; Ok (x :: r')
  end.

Definition transform_input (line : str) (nth : list range) (d : delimiter) : res (list token) :=
  do tokens <- tokenize line d;
  do ret <- transform tokens nth;
  if is_awk d then Ok ret
  else map_last (fun t => do s <- strip_last_delimiter (t_text t) d; Ok (mkTok s (t_prefix t))) ret.

(* ---- pattern.go: iter.  pfun abstracts algo.*Match on one token:
   Some (start, end, positions) relative to the token's text. ---- *)
Definition match_fn := str -> option (nat * nat * list nat).

Fixpoint iter (pfun : match_fn) (tokens : list token) : option (Z * Z * list Z) :=
  match tokens with
  | [] => None
  | part :: rest =>
      match pfun (t_text part) with
      | Some (s, e, pos) =>
          Some (Z.of_nat s + t_prefix part, Z.of_nat e + t_prefix part,
                map (fun p => Z.of_nat p + t_prefix part) pos)
      | None => iter pfun rest
      end
  end.

(* basicMatch with --nth: the input of iter is transformInput(item) *)
Definition nth_match (pfun : match_fn) (line : str) (nth : list range) (d : delimiter)
  : res (option (Z * Z * list Z)) :=
  match nth with
  | [] => Ok (iter pfun [mkTok line 0])
  | _ => do tokens <- transform_input line nth d; Ok (iter pfun tokens)
  end.

(* ---- options.go nthTransformer (plain expression list) and item.acceptNth ---- *)
Definition nth_transformer (nth : list range) (tokens : list token) : res str :=
  do ts <- transform tokens nth; Ok (join_tokens ts).

Definition accept_nth (line : str) (nth : list range) (d : delimiter) : res str :=
  do tokens <- tokenize line d;
  do s <- nth_transformer nth tokens;
  strip_last_delimiter s d.


(* ---- options.go nthTransformer, template form ("{n}", "{1..2}", literal text between them).
   The template is given parsed (the regexp {[0-9,-.]+}|{n} and splitNth are the harness's job, as the
   range list is for Transform); a holder is str / index / nth exactly as in NthParts. ---- *)
Inductive nth_part := PStr (s : str) | PIndex | PNth (nth : list range).

Fixpoint nth_template (parts : list nth_part) (d : delimiter) (tokens : list token) (index : Z) : res str :=
  match parts with
  | [] => Ok []
  | holder :: rest =>
      do s <- match holder with
              | PNth nth => do ts <- transform tokens nth; strip_last_delimiter (join_tokens ts) d
              | PIndex => Ok (if 0 <=? index then itoa index else [])
              | PStr s => Ok s
              end;
      do r <- nth_template rest d tokens index;
      Ok (s ++ r)
  end.

(* --with-nth TEMPLATE: the text shown and searched (core.go: nthTransformer(tokens, itemIndex)) *)
Definition with_nth_template (parts : list nth_part) (line : str) (d : delimiter) (index : Z) : res str :=
  do tokens <- tokenize line d; nth_template parts d tokens index.

(* --accept-nth TEMPLATE: item.acceptNth strips the last delimiter of the whole output once more *)
Definition accept_nth_template (parts : list nth_part) (line : str) (d : delimiter) (index : Z) : res str :=
  do tokens <- tokenize line d;
  do s <- nth_template parts d tokens index;
  strip_last_delimiter s d.

(* ---- terminal.go replacePlaceholder, token type {EXPR,...} with the r flag (no quoting): its own copy
   of the delimiter stripping, then strings.TrimSpace unless the s flag is given ---- *)
Definition placeholder_fields (line : str) (ranges : list range) (d : delimiter) (preserve : bool) : res str :=
  do tokens <- tokenize line d;
  do trans <- transform tokens ranges;
  let s := join_tokens trans in
  do s1 <-
    match d with
    | DStr sep => Ok (trim_suffix s sep)
    | DRegex rx =>
        match rev (rx s) with
        | (b, e) :: _ => if Nat.eqb e (length s) then slice s 0 b else Ok s
        | [] => Ok s
        end
    | DAwk => Ok s
    end;
  Ok (if preserve then s1 else trim_both is_space s1).
