(* C14 model: executable restatement of
     src/tui/light.go      LightRenderer: csi/r_stderr/r_flush/flushRaw, Init, Pause, Resume, Close, smcup/rmcup,
                           enableModes/disableModes/disableMouse, HideCursor/ShowCursor, makeSpace, move/origin
     src/tui/light_unix.go initPlatform (MakeRaw), setupTerminal, restoreTerminal
     src/terminal.go       constrain (single-line items, gap 0), the temp-file handling of
                           replacePlaceholder / evaluateScrollOffset / executeCommand / the preview goroutine /
                           reload (terminal -> event box -> coordinator -> reader) / become
     src/proxy.go          runProxy: the files of the --tmux popup proxy (fifos, script, <script>.become), the
                           deferred removals, and the become branch that ends in syscall.Exec
   No proofs here. *)
From Fzf Require Import Prelude TermSpec.
From Coq Require Import Decimal.
Open Scope Z_scope.

(* ------------------------------------------------------------------ fmt.Sprintf("%d", n) *)
Fixpoint uint_bytes (u : Decimal.uint) : list Z :=
  match u with
  | Decimal.Nil => []
  | Decimal.D0 r => 48 :: uint_bytes r | Decimal.D1 r => 49 :: uint_bytes r
  | Decimal.D2 r => 50 :: uint_bytes r | Decimal.D3 r => 51 :: uint_bytes r
  | Decimal.D4 r => 52 :: uint_bytes r | Decimal.D5 r => 53 :: uint_bytes r
  | Decimal.D6 r => 54 :: uint_bytes r | Decimal.D7 r => 55 :: uint_bytes r
  | Decimal.D8 r => 56 :: uint_bytes r | Decimal.D9 r => 57 :: uint_bytes r
  end.
Definition dec (n : Z) : list Z :=
  match n with
  | Z0 => [48]
  | Zpos _ => uint_bytes (Nat.to_uint (Z.to_nat n))
  | Zneg _ => 45 :: uint_bytes (Nat.to_uint (Z.to_nat (- n)))
  end.

(* ------------------------------------------------------------------ renderer *)
Record cfg := mkCfg {
  c_fullscreen : bool;   (* no --height (or --height 100%) *)
  c_clear : bool;        (* clearOnExit: true unless --no-clear *)
  c_mouse : bool;        (* true unless --no-mouse *)
  c_inputless : bool;    (* --no-input: HideCursor() is called before Init *)
  c_maxy : Z;            (* r.MaxY() at Init *)
  c_offset_ok : bool;    (* findOffset got an answer (y >= 0) *)
  c_xpos : bool          (* the cursor was not in column 0 when fzf started (x > 0) *)
}.

Record rstate := mkR {
  r_mouse : bool; r_show : bool; r_up1 : bool; r_y : Z;
  r_raw : bool;            (* termios: raw (MakeRaw) vs the original state *)
  r_queued : list Z;       (* r.queued *)
  r_out : list Z           (* every byte written to ttyout so far *)
}.

Definition set_queued (st : rstate) (q : list Z) := mkR (r_mouse st) (r_show st) (r_up1 st) (r_y st) (r_raw st) q (r_out st).
Definition set_out (st : rstate) (o : list Z) := mkR (r_mouse st) (r_show st) (r_up1 st) (r_y st) (r_raw st) (r_queued st) o.
Definition set_raw (st : rstate) (b : bool) := mkR (r_mouse st) (r_show st) (r_up1 st) (r_y st) b (r_queued st) (r_out st).
Definition set_mouse (st : rstate) (b : bool) := mkR b (r_show st) (r_up1 st) (r_y st) (r_raw st) (r_queued st) (r_out st).
Definition set_show (st : rstate) (b : bool) := mkR (r_mouse st) b (r_up1 st) (r_y st) (r_raw st) (r_queued st) (r_out st).
Definition set_up1 (st : rstate) (b : bool) := mkR (r_mouse st) (r_show st) b (r_y st) (r_raw st) (r_queued st) (r_out st).
Definition set_y (st : rstate) (y : Z) := mkR (r_mouse st) (r_show st) (r_up1 st) y (r_raw st) (r_queued st) (r_out st).

(* stderrInternal(str, allowNLCR = true): control characters other than ESC, LF, CR are dropped
   (bytes >= 128 belong to valid UTF-8 here; invalid sequences are dropped by the code and never produced by this model) *)
Definition keep_byte (b : Z) : bool := (32 <=? b) || (b =? 27) || (b =? 10) || (b =? 13).
Definition r_stderr (s : list Z) (st : rstate) : rstate := set_queued st (r_queued st ++ filter keep_byte s).
Definition csi (code : list Z) (st : rstate) : rstate := r_stderr (27 :: 91 :: code) st.
Definition r_flush_raw (s : list Z) (st : rstate) : rstate := set_out st (r_out st ++ s).

Definition PRE : list Z := [27;91;63;55;108; 27;91;63;50;53;108].            (* ESC[?7l ESC[?25l *)
Definition POST_SHOW : list Z := [27;91;63;50;53;104; 27;91;63;55;104].       (* ESC[?25h ESC[?7h *)
Definition POST_HIDE : list Z := [27;91;63;55;104].                           (* ESC[?7h *)
Definition SMCUP : list Z := [27;91;63;49;48;52;57;104].                      (* ESC[?1049h *)
Definition RMCUP : list Z := [27;91;63;49;48;52;57;108].                      (* ESC[?1049l *)

Definition r_flush (st : rstate) : rstate :=
  match r_queued st with
  | [] => st
  | q => set_queued (r_flush_raw (PRE ++ q ++ (if r_show st then POST_SHOW else POST_HIDE)) st) []
  end.

Definition smcup (st : rstate) := r_flush_raw SMCUP (r_flush st).
Definition rmcup (st : rstate) := r_flush_raw RMCUP (r_flush st).

Definition enable_modes (st : rstate) : rstate :=
  let st := if r_mouse st then csi [63;49;48;48;54;104] (csi [63;49;48;48;50;104] (csi [63;49;48;48;48;104] st)) else st in
  csi [63;50;48;48;52;104] st.
Definition disable_mouse (st : rstate) : rstate :=
  if r_mouse st then csi [63;49;48;48;54;108] (csi [63;49;48;48;50;108] (csi [63;49;48;48;48;108] st)) else st.
Definition disable_modes (st : rstate) : rstate := csi [63;50;48;48;52;108] (disable_mouse st).

Definition make_space (st : rstate) : rstate := csi [71] (r_stderr [10] st).
Fixpoint repeat_op (n : nat) (f : rstate -> rstate) (st : rstate) : rstate :=
  match n with O => st | S n => repeat_op n f (f st) end.

(* findOffset: ESC[6n, r_flush, read the answer (the answer is an input of the model: c_offset_ok / c_xpos) *)
Definition find_offset (st : rstate) : rstate := r_flush (csi [54;110] st).

Definition hide_cursor (st : rstate) : rstate := csi [63;50;53;108] (set_show st false).
Definition show_cursor (st : rstate) : rstate := csi [63;50;53;104] (set_show st true).

Definition init_state (c : cfg) : rstate :=
  let st := mkR (c_mouse c) true false 0 false [] [] in
  if c_inputless c then hide_cursor st else st.

Definition r_init (c : cfg) (st : rstate) : rstate :=
  let st := set_raw st true in
  let st :=
    if c_fullscreen c then smcup st
    else
      let st := if c_clear c then csi [74] st else st in
      let st := find_offset st in
      let st := set_mouse st (r_mouse st && c_offset_ok c) in
      let st := if c_xpos c && c_clear c then make_space (set_up1 st true) else st in
      repeat_op (Z.to_nat (c_maxy c - 1)) make_space st in
  let st := enable_modes st in
  let st := csi (dec (c_maxy c - 1) ++ [65]) st in
  let st := csi [71] st in
  let st := csi [75] st in
  let st := if negb (c_clear c) && negb (c_fullscreen c) then csi [115] st else st in
  if negb (c_fullscreen c) && r_mouse st then find_offset st else st.

(* move(0, 0) *)
Definition origin (st : rstate) : rstate :=
  let st := if r_y st <? 0 then csi (dec (0 - r_y st) ++ [66]) st
            else if 0 <? r_y st then csi (dec (r_y st) ++ [65]) st else st in
  set_y (r_stderr [13] st) 0.

Definition r_pause (c : cfg) (clear : bool) (st : rstate) : rstate :=
  let st := disable_modes st in
  let st := set_raw st false in
  if clear then r_flush (if c_fullscreen c then rmcup st else csi [72] (smcup st)) else st.

Definition r_resume (c : cfg) (clear sigcont : bool) (st : rstate) : rstate :=
  let st := set_raw st true in
  if clear then r_flush (enable_modes (if c_fullscreen c then smcup st else rmcup st))
  else if sigcont && negb (c_fullscreen c) && r_mouse st then set_mouse (disable_mouse st) false
  else st.

Definition r_close (c : cfg) (st : rstate) : rstate :=
  let st :=
    if c_clear c then
      (if c_fullscreen c then rmcup st
       else let st := origin st in
            let st := if r_up1 st then csi [65] st else st in
            csi [74] st)
    else if negb (c_fullscreen c) then csi [117] st else st in
  let st := if negb (r_show st) then csi [63;50;53;104] st else st in
  let st := disable_modes st in
  let st := r_flush st in
  set_raw st false.

(* what happens between Init and Close *)
Inductive lop :=
| LFrame (body : list Z) (y : Z)                 (* drawing (already cleansed text, colours, cursor motion) + r_flush; leaves r.y = y *)
| LHide | LShow                                  (* hide-input / show-input *)
| LSuspend (clear sigcont : bool) (child : list Z). (* Pause(clear); a child writes to the terminal; Resume(clear, sigcont) *)

Definition r_step (c : cfg) (st : rstate) (o : lop) : rstate :=
  match o with
  | LFrame body y => r_flush (set_y (set_queued st (r_queued st ++ body)) y)
  | LHide => hide_cursor st
  | LShow => show_cursor st
  | LSuspend clear sigcont child => r_resume c clear sigcont (r_flush_raw child (r_pause c clear st))
  end.

Definition run_lifecycle (c : cfg) (ops : list lop) : rstate :=
  r_close c (fold_left (r_step c) ops (r_init c (init_state c))).

(* ------------------------------------------------------------------ constrain *)
Definition clampz (v lo hi : Z) : Z := if v <? lo then lo else if hi <? v then hi else v.   (* util.Constrain *)

(* the inner `for { ... }` of one phase; fuel-bounded, Err OutOfFuel if the bound is hit *)
Fixpoint so_phase (fuel : nat) (phase : bool) (cy maxLines so minOff maxOff newOff : Z) : res Z :=
  match fuel with
  | O => Err OutOfFuel
  | S fuel =>
      let linesBefore := cy - newOff in
      let linesAfter := maxLines - (linesBefore + 1) in
      if (linesBefore <? so) && (linesAfter <? so) then Ok newOff
      else
        let n' := if negb phase && (linesBefore <? so) then Z.max minOff (newOff - 1)
                  else if phase && (linesAfter <? so) then Z.min maxOff (newOff + 1)
                  else newOff in
        if n' =? newOff then Ok newOff else so_phase fuel phase cy maxLines so minOff maxOff n'
  end.

Definition constrain_iter (count maxLines scrollOff cy offset : Z) : res (Z * Z) :=
  let numItems := maxLines in
  let cy := clampz cy 0 (Z.max 0 (count - 1)) in
  let minOff := Z.max (cy - numItems + 1) 0 in
  let maxOff := Z.max (Z.min (count - numItems) cy) 0 in
  let offset := clampz offset minOff maxOff in
  if 0 <? scrollOff then
    let so := Z.min (maxLines / 2) scrollOff in
    let fuel := S (Z.to_nat (maxOff - minOff)) in
    do o1 <- so_phase fuel false cy maxLines so minOff maxOff offset;
    do o2 <- so_phase fuel true cy maxLines so minOff maxOff o1;
    Ok (cy, o2)
  else Ok (cy, offset).

(* `for tries := 0; tries < maxLines; tries++ { prevOffset := t.offset; ...; if t.offset == prevOffset { break } }` *)
Fixpoint constrain_loop (tries : nat) (count maxLines scrollOff cy offset : Z) : res (Z * Z) :=
  match tries with
  | O => Ok (cy, offset)
  | S tries =>
      do r <- constrain_iter count maxLines scrollOff cy offset;
      let '(cy', off') := r in
      if off' =? offset then Ok (cy', off') else constrain_loop tries count maxLines scrollOff cy' off'
  end.

(* t.constrain() for single-line items: returns (t.cy, t.offset) *)
Definition constrain (count maxLines scrollOff cy offset : Z) : res (Z * Z) :=
  constrain_loop (Z.to_nat maxLines) count maxLines scrollOff cy (clampz offset 0 count).

(* ------------------------------------------------------------------ temp files *)
(* WriteTemporaryFile creates a fresh name (os.CreateTemp); removeFiles removes by name.
   Who owns the names of files that still have to be removed:
     the preview goroutine (one request at a time), the action list being executed (newCommand),
     the event-box slot EvtSearchNew (a later Set overwrites an unconsumed value), the coordinator (nextCommand),
     the reader goroutine running a reload command. *)
Record tstate := mkT {
  t_next : nat;                 (* next fresh file id *)
  t_ledger : ledger;            (* files that exist *)
  t_preview : list nat;         (* files of the preview command that is running *)
  t_newcmd : list nat;          (* terminal.go: newCommand.tempFiles *)
  t_box : list nat;             (* event box: searchRequest.command.tempFiles *)
  t_nextcmd : list nat;         (* core.go: nextCommand.tempFiles *)
  t_running : list nat;         (* reader.restart: command.tempFiles *)
  t_reading : bool;             (* core.go: reading *)
  t_exited : bool
}.
Definition t0 : tstate := mkT 0 [] [] [] [] [] [] true false.

Definition in_list (x : nat) (l : list nat) : bool := existsb (Nat.eqb x) l.
Definition remove_files (fs : list nat) (l : ledger) : ledger := filter (fun x => negb (in_list x fs)) l.
Definition fresh (st : tstate) (n : nat) : list nat := seq (t_next st) n.

Inductive tev :=
| TScroll (n : nat)                      (* evaluateScrollOffset: n files for {f}-placeholders in the scroll expression *)
| TExecute (valid capture : bool) (n : nat)   (* executeCommand: execute, execute-silent, transform-*, info command *)
| TPreviewStart (n : nat) (ok : bool)    (* the preview goroutine takes a request; ok = cmd.Start() succeeded *)
| TPreviewDone                           (* the preview command finished or was killed *)
| TReloadAct (valid : bool) (n : nat)    (* the reload / reload-sync action *)
| TActionsEnd                            (* end of the action list: the request goes to the event box *)
| TCoordTake                             (* the coordinator consumes EvtSearchNew *)
| TReadFin                               (* the input command finished (or was terminated); coordinator handles EvtReadFin *)
| TBecome (valid : bool) (n : nat)       (* become: the files are deliberately left to the new program *)
| TExit.                                 (* the process ends *)

Definition t_step (st : tstate) (e : tev) : tstate :=
  if t_exited st then st else
  let '(mkT nx lg pv nc bx nn rn rd ex) := st in
  match e with
  | TScroll n => mkT (nx + n) (remove_files (seq nx n) (lg ++ seq nx n)) pv nc bx nn rn rd ex
  | TExecute valid capture n =>
      if negb valid && negb capture then st
      else mkT (nx + n) (remove_files (seq nx n) (lg ++ seq nx n)) pv nc bx nn rn rd ex
  | TPreviewStart n ok =>
      (* the goroutine is sequential: a request is only taken when the previous command is done *)
      match pv with
      | _ :: _ => st
      | [] => if ok then mkT (nx + n) (lg ++ seq nx n) (seq nx n) nc bx nn rn rd ex
              else mkT (nx + n) (remove_files (seq nx n) (lg ++ seq nx n)) [] nc bx nn rn rd ex  (* failed start: removeFiles *)
      end
  | TPreviewDone => mkT nx (remove_files pv lg) [] nc bx nn rn rd ex
  | TReloadAct valid n =>
      if valid then mkT (nx + n) (lg ++ seq nx n) pv (seq nx n) bx nn rn rd ex   (* newCommand = &commandSpec{...}: overwrites *)
      else st
  | TActionsEnd =>
      match nc with
      | [] => st                             (* (a reload without {f} owns no file: nothing to track) *)
      | _ => mkT nx lg pv [] nc nn rn rd ex  (* eventBox.Set: overwrites an unconsumed request *)
      end
  | TCoordTake =>
      match bx with
      | [] => st
      | _ => if rd then mkT nx lg pv nc [] bx rn rd ex            (* reader.terminate(); nextCommand = command: overwrites *)
             else mkT nx lg pv nc [] nn bx true ex                (* restart(command) *)
      end
  | TReadFin =>
      (* reader.restart: r.fin(); removeFiles(command.tempFiles) -- then EvtReadFin: restart(nextCommand) if any *)
      let lg := remove_files rn lg in
      match nn with
      | [] => mkT nx lg pv nc bx [] [] false ex
      | _ => mkT nx lg pv nc bx [] nn true ex
      end
  | TBecome valid n =>
      if valid then mkT (nx + n) (lg ++ seq nx n) pv nc bx nn rn rd true else st
  | TExit => mkT nx lg pv nc bx nn rn rd true
  end.

Definition t_run (st : tstate) (es : list tev) : tstate := fold_left t_step es st.

(* ------------------------------------------------------------------ the --tmux popup proxy (src/proxy.go: runProxy) *)
(* Everything the environment decides: *)
Record penv := mkPenv {
  pe_stdin_tty : bool;      (* opts.Input == nil && (ForceTtyIn || IsTty(stdin)): no input fifo *)
  pe_out_ok : bool;         (* mkfifo of the output fifo succeeded *)
  pe_in_ok : bool;          (* mkfifo of the input fifo succeeded *)
  pe_builder_ok : bool;     (* cmdBuilder (tmux.go: sh()) returned a command *)
  pe_child : Z;             (* what cmd.Run() reports for `tmux display-popup -E ... sh <script>`: 0 = nil error *)
  pe_exiterr : bool;        (* a non-nil error of cmd.Run() is an *exec.ExitError *)
  pe_inner_become : bool;   (* the inner fzf wrote <script>.become (terminal.go: actBecome with a proxy script) *)
  pe_ttyin_ok : bool        (* tui.TtyIn() succeeded *)
}.
Record pres := mkPres {
  pr_live : list pfile;     (* the files that exist while the popup command runs *)
  pr_left : list pfile;     (* the files that exist when runProxy has returned / has called exec *)
  pr_code : Z;              (* the exit status runProxy returns; -1 when the process was replaced *)
  pr_exec : bool
}.
Definition pf_eqb (a b : pfile) : bool := pfile_code a =? pfile_code b.
Definition p_remove (f : pfile) (fs : list pfile) : list pfile := filter (fun x => negb (pf_eqb x f)) fs.
(* `return`: the deferred os.Remove calls run, the one registered last first (the head of ds) *)
Definition p_return (ds fs : list pfile) : list pfile := fold_left (fun acc f => p_remove f acc) ds fs.

Definition run_proxy (e : penv) : pres :=
  (* output, err := fifo("proxy-output"); if err != nil { return }; defer os.Remove(output) *)
  if negb (pe_out_ok e) then mkPres [] [] 2 false else
  let fs := [PFOut] in let ds := [PFOut] in
  (* input fifo: only when standard input is not the terminal *)
  let '(okin, fs, ds) :=
    if pe_stdin_tty e then (true, fs, ds)
    else if pe_in_ok e then (true, fs ++ [PFIn], PFIn :: ds) else (false, fs, ds) in
  if negb okin then mkPres [] (p_return ds fs) 2 false else
  (* temp := WriteTemporaryFile(...); defer os.Remove(temp) *)
  let fs := fs ++ [PFScript] in let ds := PFScript :: ds in
  if negb (pe_builder_ok e) then mkPres [] (p_return ds fs) 2 false else
  let live := fs in
  (* cmd.Run(): the popup runs the script; the inner fzf may leave <script>.become *)
  let fs := if pe_inner_become e then fs ++ [PFBecome] else fs in
  if pe_child e =? 0 then mkPres live (p_return ds fs) 0 false
  else if negb (pe_exiterr e) then mkPres live (p_return ds fs) 0 false
  else if pe_child e =? 126 then
    (* data, err := os.ReadFile(becomeFile); os.Remove(becomeFile); if err != nil { return } *)
    let readok := pe_inner_become e in
    let fs := p_remove PFBecome fs in
    if negb readok then mkPres live (p_return ds fs) 2 false
    else if negb (pe_ttyin_ok e) then mkPres live (p_return ds fs) 2 false
    else
      (* os.Remove(temp); os.Remove(input); os.Remove(output); executor.Become(...) = syscall.Exec:
         the process image is replaced, the deferred calls NEVER run *)
      let fs := p_remove PFOut (p_remove PFIn (p_remove PFScript fs)) in
      mkPres live fs (-1) true
  else mkPres live (p_return ds fs) (pe_child e) false.
