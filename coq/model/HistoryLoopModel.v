(* C18 model, process level, Terminal.Loop one action at a time (terminal.go):
     actPrevHistory / actNextHistory:  t.history.override(input); input = t.history.previous() / next()
     actBecome:      valid, list := t.buildPlusList(template, false)
                     if valid { ...; t.tui.Close(); if t.history != nil { t.history.append(input) }; Become(...) }
                     -- NOTHING happens when !valid (template has an item placeholder and there is no current item)
     actAcceptNonEmpty: if len(selected) > 0 || merger.Length() > 0 || ... { req(reqClose) }   -- else nothing
     exit():         if code <= ExitNoMatch && t.history != nil { t.history.append(input) }
   `valid` / "the list is not empty" is an input of the model (the flag of PTry). *)
From Fzf Require Import Prelude HistorySpec HistoryModel HistoryProcSpec HistoryProcModel HistoryLoopSpec.
Open Scope Z_scope.

(* the action loop: runs until an action ends the session (Some ending) or the steps are used up (None) *)
Fixpoint loop_steps (st : sess) (ps : list (pstep sop)) : res (sess * option ending) :=
  match ps with
  | [] => Ok (st, None)
  | PDo o :: r => do st' <- sess_step st o; loop_steps st' r
  | PTry e valid :: r => if valid then Ok (st, Some e) else loop_steps st r
  end.

(* the same loop when t.history == nil: previous/next do nothing *)
Fixpoint nohist_loop (inp : str) (seen : list str) (ps : list (pstep sop)) : str * list str * option ending :=
  match ps with
  | [] => (inp, rev seen, None)
  | PDo (Edit s) :: r => nohist_loop s seen r
  | PDo _ :: r => nohist_loop inp (inp :: seen) r
  | PTry e valid :: r => if valid then (inp, rev seen, Some e) else nohist_loop inp seen r
  end.

Record lsession := mkL { l_layers : list (list hopt); l_steps : list (pstep sop); l_end : ending }.

Definition or_end (o : option ending) (e0 : ending) : ending := match o with Some e => e | None => e0 end.

(* one run of the program: options, the action loop, the ending (of the attempt that fired, else l_end) *)
Definition run_lsession (F : fsys) (s : lsession) : res (fsys * hcfg * list str * str * ending) :=
  do H <- parse_layers None (l_layers s);
  let F1 := touch_words F (concat (l_layers s)) in
  match H with
  | None =>
      let r := nohist_loop [] [] (l_steps s) in
      Ok (F1, None, snd (fst r), fst (fst r), or_end (snd r) (l_end s))
  | Some (p, n) =>
      do hf <- new_history (F1 p) n;
      do x <- loop_steps (mkSess (fst hf) [] []) (l_steps s);
      let st := fst x in
      let e := or_end (snd x) (l_end s) in
      if records e then
        do hf' <- h_append (s_hist st) (snd hf) (s_input st);
        Ok (fs_upd F1 p (snd hf'), H, rev (s_seen st), s_input st, e)
      else Ok (fs_upd F1 p (snd hf), H, rev (s_seen st), s_input st, e)
  end.
