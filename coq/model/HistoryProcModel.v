(* C18 model, process level: what options.go (parseOptions / ParseOptions) and terminal.go (Loop: exit(),
   actBecome, actPrevHistory / actNextHistory) do with the history, restated.
   File system = a function from paths to optional contents. *)
From Fzf Require Import Prelude HistorySpec HistoryModel HistoryProcSpec.
Open Scope Z_scope.

(* opts.History: nil, or (path, maxSize) *)
Definition hcfg := option (str * nat).

(* parseOptions over one word vector.  hmax is the LOCAL variable historyMax:
     setHistory(path):   h := NewHistory(path, historyMax); opts.History = h
     setHistoryMax(n):   historyMax = n; n < 1 -> error; if opts.History != nil { opts.History.maxSize = n }
     --no-history:       opts.History = nil *)
Fixpoint parse_words (H : hcfg) (hmax : nat) (ws : list hopt) : res hcfg :=
  match ws with
  | [] => Ok H
  | HFile p :: r => parse_words (Some (p, hmax)) hmax r
  | HNoFile :: r => parse_words None hmax r
  | HSize n :: r =>
      if Nat.ltb n 1 then Err BadInput
      else parse_words (match H with Some (p, _) => Some (p, n) | None => None end) n r
  | HOther :: r => parse_words H hmax r
  end.

(* every call of parseOptions starts with
     if opts.History == nil { historyMax = defaultHistoryMax } else { historyMax = opts.History.maxSize } *)
Definition parse_layer (H : hcfg) (ws : list hopt) : res hcfg :=
  parse_words H (match H with None => DEFAULT_HISTORY_SIZE | Some (_, m) => m end) ws.

(* ParseOptions: $FZF_DEFAULT_OPTS_FILE, $FZF_DEFAULT_OPTS, command line: one parseOptions call each *)
Fixpoint parse_layers (H : hcfg) (ls : list (list hopt)) : res hcfg :=
  match ls with
  | [] => Ok H
  | l :: r => do H' <- parse_layer H l; parse_layers H' r
  end.

Definition fsys := str -> fs.
Definition fs_upd (F : fsys) (p : str) (f : fs) : fsys := fun q => if str_eqb q p then f else F q.

(* NewHistory creates a missing file (empty) as soon as --history names it *)
Definition touch (F : fsys) (p : str) : fsys :=
  match F p with None => fs_upd F p (Some []) | Some _ => F end.
Fixpoint touch_words (F : fsys) (ws : list hopt) : fsys :=
  match ws with
  | [] => F
  | HFile p :: r => touch_words (touch F p) r
  | _ :: r => touch_words F r
  end.

(* exit status of the process for each ending that goes through exit() in Terminal.Loop *)
Definition exit_code (e : ending) : Z :=
  match e with
  | EndAccept true => 0      (* ExitOk *)
  | EndAccept false => 1     (* ExitNoMatch *)
  | EndPrintQuery => 0
  | EndBecome => 126         (* ExitBecome; not used for the decision below *)
  | EndAbort => 130          (* ExitInterrupt *)
  end.

(* which endings call t.history.append(string(t.input)):
   exit(): `if code <= ExitNoMatch && t.history != nil`; actBecome appends before handing over *)
Definition records (e : ending) : bool :=
  match e with
  | EndBecome => true
  | _ => exit_code e <=? 1
  end.

(* without a history prev-history / next-history do nothing *)
Fixpoint nohist_steps (inp : str) (seen : list str) (ops : list sop) : str * list str :=
  match ops with
  | [] => (inp, rev seen)
  | Edit s :: r => nohist_steps s seen r
  | _ :: r => nohist_steps inp (inp :: seen) r
  end.

(* one run of the program: option layers, steps at the prompt, an ending *)
Record psession := mkP { p_layers : list (list hopt); p_ops : list sop; p_end : ending }.

Definition run_psession (F : fsys) (s : psession) : res (fsys * hcfg * list str * str) :=
  do H <- parse_layers None (p_layers s);
  let F1 := touch_words F (concat (p_layers s)) in
  match H with
  | None => let r := nohist_steps [] [] (p_ops s) in Ok (F1, None, snd r, fst r)
  | Some (p, n) =>
      do x <- run_session n (F1 p) (mkSession (p_ops s) (records (p_end s)));
      Ok (fs_upd F1 p (fst (fst x)), H, snd (fst x), snd x)
  end.

(* a sequence of runs, with the log (configuration in effect, ending, query at the end) of each *)
Fixpoint run_psessions_log (F : fsys) (ss : list psession) : res (fsys * list (hcfg * ending * str)) :=
  match ss with
  | [] => Ok (F, [])
  | s :: r =>
      do x <- run_psession F s;
      do y <- run_psessions_log (fst (fst (fst x))) r;
      Ok (fst y, (snd (fst (fst x)), p_end s, snd x) :: snd y)
  end.
