(* C19 model: the walker of src/reader.go (readFiles and its callback, trimPath) restated,
   driven by an abstract fastwalk.

   INTERFACE ASSUMED OF github.com/charlievieth/fastwalk v1.0.10 (trusted, stated here, read off
   fastwalk.go: Walk, walk, onDirEnt, joinPaths, cleanRootPath, shouldTraverse):
   * Walk(conf, root, fn): root := cleanRootPath(root) (trailing separators removed); fn(root, <dir>) is
     called first; if it returns SkipDir nothing else happens for this root.
   * for every entry of a directory that is read, fn(joinPaths(dir, name), de, nil) is called exactly once,
     after the call for the directory itself (pre-order); the order among siblings and among worker
     goroutines is unspecified (here: list order; the harness compares sorted outputs).
   * a directory whose call returned SkipDir is not read; SkipDir returned for a symlink is ignored
     ("Permit SkipDir on symlinks too"); SkipDir returned for any other non-directory aborts the walk
     (here: Err BadInput; walk_never_aborts shows the callback never does that).
   * a symlink whose target is a directory is read (as if it were a directory at the symlink's path) iff
     conf.Follow and the call returned nil and it does not lead back to one of its ancestors / the root
     (loop protection, fastwalk.shouldTraverse: the target is compared, by os.SameFile, with filepath.Dir^k of
     the joined path, i.e. with the link's textual ancestors, the root and the lexical parents of the root
     string down to "." or "/"; a SymDir that fastwalk refuses to enter is given to the model with an empty
     target.  This rule is spec/WalkLinkSpec.v `unfold` - the trees of a run are computed by it, op 1906 -
     and theorem walk_eq_listing_cyclic ties the model to the listing of that finite unfolding).
   * directories that cannot be read (no permission, path beyond PATH_MAX, removed after being listed) are the
     subject of model/WalkErrModel.v (fastwalk's second, error-reporting call of the callback); a killed reader and
     a directory stream that fails half way are outside the model.
   os.PathSeparator = '/', MSYSTEM unset. *)
From Fzf Require Import Prelude WalkSpec.
Open Scope Z_scope.

(* what de.IsDir(), de.Type() and os.Stat(path) say about an entry *)
Inductive kind := KFile | KDir | KSymFile | KSymDir.
Inductive action := Continue | SkipDir.

Definition kind_of (e : entry) : kind :=
  match e with File _ => KFile | Dir _ _ => KDir | SymFile _ => KSymFile | SymDir _ _ => KSymDir end.

Definition is_sep (c : Z) : bool := c =? SLASH.           (* os.IsPathSeparator on unix *)
Definition sep : str := [SLASH].                          (* string(os.PathSeparator) *)

(* strings.HasSuffix / HasPrefix / ContainsRune by their documented meaning *)
Definition go_has_suffix (s suffix : str) : bool := ends_with suffix s.
Definition go_has_prefix (s prefix : str) : bool := starts_with prefix s.
Definition go_contains_rune (s : str) (c : Z) : bool := existsb (fun x => x =? c) s.

(* fastwalk.cleanRootPath: for i := len-1 .. 0 { if !sep(root[i]) return root[:i+1] }; root[0:1] if all separators *)
Definition clean_root_path (root : str) : str :=
  match rev (drop_while is_sep (rev root)) with
  | [] => match root with [] => [] | c :: _ => [c] end
  | r => r
  end.

Fixpoint last_byte (s : str) : option Z :=
  match s with
  | [] => None
  | [c] => Some c
  | _ :: r => last_byte r
  end.

(* fastwalk joinPaths, PathSeparator == '/' branch *)
Definition join_paths (dir base : str) : str :=
  match last_byte dir with
  | Some c => if c =? SLASH then dir ++ base else dir ++ SLASH :: base
  | None => dir ++ SLASH :: base
  end.

(* reader.go trimPath:
     for len(bytes) > 1 && bytes[0]=='.' && (bytes[1]=='/' || bytes[1]==os.PathSeparator) { bytes = bytes[2:] }
   This models the Linux build: os.PathSeparator = '/', so only "./" is stripped (since fix c70b7a3; before,
   the second alternative was '\\' on every platform, finding K4). *)
Definition PATH_SEPARATOR : Z := SLASH.
Fixpoint trim_loop (s : str) : str :=
  match s with
  | a :: b :: r => if (a =? DOT) && ((b =? SLASH) || (b =? PATH_SEPARATOR)) then trim_loop r else s
  | _ => s
  end.
Definition trim_path (path : str) : str :=
  match trim_loop path with
  | [] => [DOT]
  | s => s
  end.

Fixpoint take_while {A} (p : A -> bool) (l : list A) : list A :=
  match l with
  | [] => []
  | x :: t => if p x then x :: take_while p t else []
  end.

(* path/filepath.Base on unix *)
Definition go_base (path : str) : str :=
  match path with
  | [] => [DOT]
  | _ =>
    let p1 := rev (drop_while is_sep (rev path)) in                (* strip trailing slashes *)
    let p2 := rev (take_while (fun c => negb (is_sep c)) (rev p1)) in  (* after the last separator *)
    match p2 with
    | [] => sep                                                    (* it had only slashes *)
    | _ => p2
    end
  end.

(* the loop over `ignores` at the top of readFiles: (ignoresBase, ignoresFull, ignoresSuffix) *)
Fixpoint split_ignores (ignores : list str) : list str * list str * list str :=
  match ignores with
  | [] => ([], [], [])
  | ig :: r =>
      let '(b, f, x) := split_ignores r in
      if go_contains_rune ig SLASH then
        if go_has_prefix ig sep then (b, f, ig :: x)
        else (b, ig :: f, (sep ++ ig) :: x)
      else (ig :: b, f, x)
  end.

Definition push (b : bool) (p : str) : list str := if b then [p] else [].

(* the callback `fn` of readFiles; returns the items pushed and what it tells fastwalk *)
Definition walk_fn (o : wopts) (ign : list str * list str * list str) (path0 : str) (k : kind)
  : res (list str * action) :=
  let '(ign_base, ign_full, ign_suffix) := ign in
  let path := trim_path path0 in
  if str_eqb path [DOT] then Ok ([], Continue)
  else
    let is_dir := match k with KDir => true | _ => false end in
    let is_symlink_to_dir := match k with KSymDir => true | _ => false end in
    let wanted := (o_file o && negb is_dir) || (o_dir o && is_dir) in
    if is_dir || (o_follow o && is_symlink_to_dir) then
      let base := go_base path in
      do b0 <- get base 0;                                         (* base[0] *)
      if negb (o_hidden o) && (b0 =? DOT) && negb (str_eqb base [DOT; DOT]) then Ok ([], SkipDir)
      else if existsb (fun ig => str_eqb ig base) ign_base then Ok ([], SkipDir)
      else if existsb (fun ig => str_eqb ig path) ign_full then Ok ([], SkipDir)
      else if existsb (fun ig => go_has_suffix path ig) ign_suffix then Ok ([], SkipDir)
      else
        let path := if str_eqb path sep then path else path ++ sep in
        Ok (push wanted path, Continue)
    else Ok (push wanted path, Continue).

(* ---- abstract fastwalk (see the interface above) ---- *)
Definition callback := str -> kind -> res (list str * action).

Fixpoint fw_entry (fn : callback) (follow : bool) (dir : str) (e : entry) : res (list str) :=
  let joined := join_paths dir (name_of e) in
  let read (l : list entry) : res (list str) :=
    (fix go (l : list entry) : res (list str) :=
       match l with
       | [] => Ok []
       | x :: r => do a <- fw_entry fn follow joined x; do b <- go r; Ok (a ++ b)
       end) l in
  do r <- fn joined (kind_of e);
  match e with
  | File _ => match snd r with Continue => Ok (fst r) | SkipDir => Err BadInput end
  | SymFile _ => Ok (fst r)
  | Dir _ ch =>
      match snd r with
      | SkipDir => Ok (fst r)
      | Continue => do rest <- read ch; Ok (fst r ++ rest)
      end
  | SymDir _ tg =>
      match snd r with
      | SkipDir => Ok (fst r)
      | Continue => if follow then do rest <- read tg; Ok (fst r ++ rest) else Ok (fst r)
      end
  end.

Definition fw_read (fn : callback) (follow : bool) (dir : str) : list entry -> res (list str) :=
  fix go (l : list entry) : res (list str) :=
    match l with
    | [] => Ok []
    | x :: r => do a <- fw_entry fn follow dir x; do b <- go r; Ok (a ++ b)
    end.

Definition fw_walk (fn : callback) (follow : bool) (root : str) (ch : list entry) : res (list str) :=
  let root := clean_root_path root in
  do r <- fn root KDir;
  match snd r with
  | SkipDir => Ok (fst r)
  | Continue => do rest <- fw_read fn follow root ch; Ok (fst r ++ rest)
  end.

(* readFiles: for _, root := range roots { fastwalk.Walk(&conf, root, fn) } *)
Fixpoint walk_roots (fn : callback) (follow : bool) (roots : list (str * list entry)) : res (list str) :=
  match roots with
  | [] => Ok []
  | (root, ch) :: r => do a <- fw_walk fn follow root ch; do b <- walk_roots fn follow r; Ok (a ++ b)
  end.

Definition read_files (o : wopts) (ignores : list str) (roots : list (str * list entry)) : res (list str) :=
  walk_roots (walk_fn o (split_ignores ignores)) (o_follow o) roots.
