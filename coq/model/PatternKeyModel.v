(* Model of the parts of src/pattern.go that talk to the ChunkCache and that PatternModel.v leaves out:
   BuildPattern's cacheable / sortable loop, buildCacheKey, IsEmpty.  Structured like the code.  No proofs here.

   Keys are kept as RUNE strings (the code joins string(term.text) with "\t": the UTF-8 image of this rune
   string; ChunkCache.Search cuts the key at byte indexes, a cut inside a rune is never a stored key). *)
From Fzf Require Import Prelude AlgoSpec AlgoModel QuerySpec PatternModel.
Open Scope Z_scope.

Definition ttype_eqb (a b : ttype) : bool :=
  match a, b with
  | termFuzzy, termFuzzy | termExact, termExact | termExactBoundary, termExactBoundary
  | termPrefix, termPrefix | termSuffix, termSuffix | termEqual, termEqual => true
  | _, _ => false
  end.

(* the condition of the inner `if`, without the `!cacheable ||` disjunct:
     idx > 0 || term.inv || fuzzy && term.typ != termFuzzy || !fuzzy && term.typ != termExact *)
Definition term_bad (fuzzy : bool) (idx : nat) (t : term) : bool :=
  negb (Nat.eqb idx 0) || tm_inv t ||
  (fuzzy && negb (ttype_eqb (tm_typ t) termFuzzy)) || (negb fuzzy && negb (ttype_eqb (tm_typ t) termExact)).

(* for idx, term := range termSet { ... }  ->  (cacheable, sortable, break Loop taken) *)
Fixpoint flags_set (fuzzy : bool) (ts : termSet) (idx : nat) (cacheable sortable : bool) : bool * bool * bool :=
  match ts with
  | [] => (cacheable, sortable, false)
  | t :: r =>
      let sortable := if tm_inv t then sortable else true in
      if negb cacheable || term_bad fuzzy idx t then
        if sortable then (false, sortable, true)                       (* cacheable = false; break Loop *)
        else flags_set fuzzy r (S idx) false sortable
      else flags_set fuzzy r (S idx) cacheable sortable
  end.

(* Loop: for _, termSet := range termSets { ... }  ->  (cacheable, sortable) *)
Fixpoint flags_loop (fuzzy : bool) (sets : list termSet) (cacheable sortable : bool) : bool * bool :=
  match sets with
  | [] => (cacheable, sortable)
  | ts :: r =>
      let '(c, s, brk) := flags_set fuzzy ts O cacheable sortable in
      if brk then (c, s) else flags_loop fuzzy r c s
  end.

(* Pattern.cacheable / Pattern.sortable; [cin] is BuildPattern's `cacheable` argument (opts.Filter == nil) *)
Definition pat_cacheable (cin : bool) (p : pattern) : bool :=
  if p_extended (pat_opts p) then fst (flags_loop (p_fuzzy (pat_opts p)) (pat_sets p) cin false) else cin.
Definition pat_sortable (cin : bool) (p : pattern) : bool :=
  if p_extended (pat_opts p) then snd (flags_loop (p_fuzzy (pat_opts p)) (pat_sets p) cin false) else true.

(* buildCacheKey: if len(termSet) == 1 && !termSet[0].inv && (p.fuzzy || termSet[0].typ == termExact) *)
Definition key_term (fuzzy : bool) (ts : termSet) : list str :=
  match ts with
  | [t] => if negb (tm_inv t) && (fuzzy || ttype_eqb (tm_typ t) termExact) then [tm_text t] else []
  | _ => []
  end.
Definition key_terms (fuzzy : bool) (sets : list termSet) : list str := flat_map (key_term fuzzy) sets.

(* strings.Join(l, "\t") *)
Fixpoint join_tab (l : list str) : str :=
  match l with
  | [] => []
  | a :: r => match r with [] => a | _ => a ++ 9 :: join_tab r end
  end.

Definition pat_cache_key (p : pattern) : str :=
  if p_extended (pat_opts p) then join_tab (key_terms (p_fuzzy (pat_opts p)) (pat_sets p)) else pat_text p.

(* IsEmpty *)
Definition pat_is_empty (p : pattern) : bool :=
  if p_extended (pat_opts p) then negb (nonemptyb (pat_sets p)) else negb (nonemptyb (pat_text p)).
