(* C11 model, second part: ansiState.ToString / toAnsiString (src/ansi.go) and the per-field loop of
   core.go that makes every field of a line displayable out of context under --ansi --with-nth:

     var ansiState *ansiState                       // copy of prevLineAnsiState, or nil
     for _, token := range tokens {
         prevAnsiState := ansiState
         _, _, ansiState = extractColor(token.text.ToString(), ansiState, nil)
         if prevAnsiState != nil { token.text.Prepend("\x1b[m" + prevAnsiState.ToString()) }
         else                    { token.text.Prepend("\x1b[m") }
     }

   followed by the selection of fields and ansiProcessor (extractColor with the line state) on the result.
   Same structure, checked accesses, no proofs here.  strconv.Itoa is modelled by its documented meaning. *)
From Fzf Require Import Prelude AnsiSpec AnsiModel.
Open Scope Z_scope.

(* strconv.Itoa *)
Fixpoint itoa_aux (fuel : nat) (n : Z) (acc : str) : str :=
  match fuel with
  | O => acc
  | S k => let acc' := (48 + n mod 10) :: acc in if n <? 10 then acc' else itoa_aux k (n / 10) acc'
  end.
Definition itoa (n : Z) : str :=
  if n <? 0 then 45 :: itoa_aux (S (Z.to_nat (Z.log2 (- n)))) (- n) []
  else itoa_aux (S (Z.to_nat (Z.log2 n))) n [].

Definition A_BOLDFORCE := 1024.

(* toAnsiString(color, offset): col is an int (64 bits) holding a tui.Color (int32) *)
Definition to_ansi_string (col offset : Z) : str :=
  (if col =? -1 then itoa (offset + 9)
   else if col <? 8 then itoa (offset + col)
   else if col <? 16 then itoa (offset - 30 + 90 + col - 8)
   else if col <? 256 then itoa (offset + 8) ++ [59; 53; 59] ++ itoa col
   else if 16777216 <=? col then
     itoa (offset + 8) ++ [59; 50; 59] ++ itoa (Z.land (Z.shiftr col 16) 255) ++ [59] ++
     itoa (Z.land (Z.shiftr col 8) 255) ++ [59] ++ itoa (Z.land col 255)
   else []) ++ [59].

(* strings.TrimSuffix *)
Definition trim_suffix (s suf : str) : str :=
  if has_suffix s suf then firstn (length s - length suf) s else s.

Definition has_attr (a m : Z) : bool := 0 <? Z.land a m.

(* ansiState.ToString *)
Definition state_to_string (s : astate) : str :=
  if negb (colored s) then []
  else
    let a := attr s in
    let ret :=
      (if has_attr a A_BOLD || has_attr a A_BOLDFORCE then [49; 59] else []) ++
      (if has_attr a A_DIM then [50; 59] else []) ++
      (if has_attr a A_ITALIC then [51; 59] else []) ++
      (if has_attr a A_UNDERLINE then [52; 59] else []) ++
      (if has_attr a A_BLINK then [53; 59] else []) ++
      (if has_attr a A_REVERSE then [55; 59] else []) ++
      (if has_attr a A_STRIKE then [57; 59] else []) ++
      to_ansi_string (fg s) 30 ++ to_ansi_string (bg s) 40 in
    let ret := ESC :: 91 :: trim_suffix ret [59] ++ [109] in
    match aurl s with
    | None => ret
    | Some u =>      (* "\x1b]8;%s;%s\x1b\\%s\x1b]8;;\x1b" *)
      [ESC; 93; 56; 59] ++ u_params u ++ [59] ++ u_uri u ++ [ESC; 92] ++ ret ++ [ESC; 93; 56; 59; 59; ESC]
    end.

Definition SGR0 : str := [ESC; 91; 109].     (* "\x1b[m" *)

(* the loop over the tokens: every token gets "\x1b[m" + (state before it).ToString() in front *)
Fixpoint nth_prefix_loop (toks : list str) (st : option astate) : res (list str) :=
  match toks with
  | [] => Ok []
  | t :: r =>
    do e <- extract_color t st;
    let '(_, _, st') := e in
    let pre := SGR0 ++ match st with Some p => state_to_string p | None => [] end in
    do r' <- nth_prefix_loop r st';
    Ok ((pre ++ t) :: r')
  end.

(* opts.Ansi && opts.Theme.Colored && len(tokens) > 1 *)
Definition nth_prefix (toks : list str) (prev : option astate) : res (list str) :=
  if Nat.ltb 1 (length toks) then nth_prefix_loop toks prev else Ok toks.

(* the selected tokens one after the other (the choice itself is C10's Transform; here it is a list of indices) *)
Fixpoint pick_tokens (toks : list str) (sel : list nat) : res str :=
  match sel with
  | [] => Ok []
  | k :: r => do t <- get toks k; do rest <- pick_tokens toks r; Ok (t ++ rest)
  end.

(* what the item gets: text and colour spans of the transformed line.  prev: state the token loop starts from,
   linest: state ansiProcessor starts from *)
Definition nth_display (toks : list str) (sel : list nat) (prev linest : option astate)
  : res (str * option (list aoff) * option astate) :=
  do pt <- nth_prefix toks prev;
  do tr <- pick_tokens pt sel;
  extract_color tr linest.
