(* C12 model: restatement of
     util.Executor.QuoteEntry (src/util/util_unix.go), escapeSingleQuote (src/proxy.go),
     the argument / export re-quoting of runTmux (src/tmux.go) and runProxy (src/proxy.go),
     the `placeholder` regexp, parsePlaceholder and replacePlaceholder (src/terminal.go),
     and the helpers replacePlaceholder calls: ParseRange, splitNth, awkTokenizer, Tokenize
     (awk and plain-string delimiter), Transform, JoinTokens (src/tokenizer.go, src/options.go),
     strconv.Atoi / Itoa, strings.TrimSpace / TrimSuffix / SplitAfter / Split.
   Bytes are Z.  Token texts are kept as bytes: util.ToChars followed by ToString is the identity on
   valid UTF-8, which is the domain of the property (stated in the manifest).
   Not modelled: --ansi stripping (stripAnsi = false), regexp delimiters, prefix lengths of tokens
   (not observable in an expansion).  No proofs in this file. *)
From Fzf Require Import Prelude ShellSpec.
Open Scope Z_scope.

(* ---------- quoting ---------- *)

(* strings.NewReplacer("'", "'\\''") *)
Fixpoint esc_sh (s : str) : str :=
  match s with
  | [] => []
  | c :: r => if c =? c_sq then c_sq :: c_bs :: c_sq :: c_sq :: esc_sh r else c :: esc_sh r
  end.

(* strings.NewReplacer("\\", "\\\\", "'", "\\'")   (shell basename = fish) *)
Fixpoint esc_fish (s : str) : str :=
  match s with
  | [] => []
  | c :: r => if c =? c_bs then c_bs :: c_bs :: esc_fish r
              else if c =? c_sq then c_bs :: c_sq :: esc_fish r
              else c :: esc_fish r
  end.

(* Executor.QuoteEntry *)
Definition quote_entry (fish : bool) (s : str) : str :=
  c_sq :: (if fish then esc_fish s else esc_sh s) ++ [c_sq].

(* escapeSingleQuote: "'" + strings.ReplaceAll(str, "'", "'\\''") + "'" *)
Definition escape_single_quote (s : str) : str := c_sq :: esc_sh s ++ [c_sq].

(* runTmux: argStr := escapeSingleQuote(fzf); for arg: argStr += " " + escapeSingleQuote(arg); argStr += ` --no-tmux --no-height` *)
Definition tmux_suffix : str := [32;45;45;110;111;45;116;109;117;120;32;45;45;110;111;45;104;101;105;103;104;116].
Fixpoint tmux_args_go (acc : str) (args : list str) : str :=
  match args with
  | [] => acc
  | a :: r => tmux_args_go (acc ++ c_sp :: escape_single_quote a) r
  end.
Definition tmux_arg_str (fzf : str) (args : list str) : str :=
  tmux_args_go (escape_single_quote fzf) args ++ tmux_suffix.

(* runProxy: fmt.Sprintf("export %s=%s", pair[0], escapeSingleQuote(pair[1])) *)
Definition export_word : str := [101;120;112;111;114;116].
Definition export_line (name value : str) : str :=
  export_word ++ c_sp :: name ++ 61 :: escape_single_quote value.

(* ---------- small string helpers ---------- *)

Fixpoint strip_prefix (p s : str) : option str :=    (* strings.HasPrefix + rest *)
  match p, s with
  | [], _ => Some s
  | a :: p', b :: s' => if a =? b then strip_prefix p' s' else None
  | _ :: _, [] => None
  end.
Definition has_prefix (p s : str) : bool := match strip_prefix p s with Some _ => true | None => false end.
Definition has_suffix (p s : str) : bool := has_prefix (rev p) (rev s).
Definition trim_suffix (s p : str) : str :=           (* strings.TrimSuffix *)
  match strip_prefix (rev p) (rev s) with Some r => rev r | None => s end.

Fixpoint span (p : Z -> bool) (s : str) : nat * str :=
  match s with
  | c :: r => if p c then let (n, t) := span p r in (S n, t) else (O, s)
  | [] => (O, [])
  end.

Fixpoint join_str (sep : str) (ls : list str) : str :=     (* strings.Join *)
  match ls with [] => [] | [l] => l | l :: r => l ++ sep ++ join_str sep r end.

(* s[a : len(s)-1], checked like the Go slice expression *)
Definition mid (a : nat) (s : str) : res str :=
  if Nat.leb (S a) (length s) then Ok (removelast (skipn a s)) else Err OutOfRange.

(* ---------- the placeholder regexp, re-implemented as a scanner ----------
   \\?(?:{[+sfr]*[0-9,-.]*}|{q(?::s?[0-9,-.]+)?}|{fzf:(?:query|action|prompt)}|{\+?f?nf?})
   Go's regexp is leftmost-first; all four alternatives are deterministic (the starred classes are
   disjoint from what must follow them), so no backtracking state is needed. *)
Definition c_lb : Z := 123.  Definition c_rb : Z := 125.
Definition in_flags (c : Z) : bool := (c =? 43) || (c =? 115) || (c =? 102) || (c =? 114).      (* + s f r *)
Definition in_range (c : Z) : bool := ((48 <=? c) && (c <=? 57)) || (c =? 44) || (c =? 45) || (c =? 46).

Definition closes (s : str) : bool := match s with c :: _ => c =? c_rb | [] => false end.

(* each m_aK takes the text after '{' and returns the number of characters up to and including '}' *)
Definition m_a1 (s : str) : option nat :=
  let (n1, r1) := span in_flags s in
  let (n2, r2) := span in_range r1 in
  if closes r2 then Some (n1 + n2 + 1)%nat else None.

Definition m_a2 (s : str) : option nat :=
  match s with
  | q :: r =>
      if q =? 113 then
        if closes r then Some 2%nat
        else match r with
             | c :: r1 =>
                 if c =? 58 then
                   let (ns, r2) := match r1 with
                                   | x :: r' => if x =? 115 then (1%nat, r') else (O, r1)
                                   | [] => (O, r1)
                                   end in
                   let (n, r3) := span in_range r2 in
                   match n with
                   | O => None
                   | _ => if closes r3 then Some (2 + ns + n + 1)%nat else None
                   end
                 else None
             | [] => None
             end
      else None
  | [] => None
  end.

Definition s_fzf_query : str := [102;122;102;58;113;117;101;114;121;125].
Definition s_fzf_action : str := [102;122;102;58;97;99;116;105;111;110;125].
Definition s_fzf_prompt : str := [102;122;102;58;112;114;111;109;112;116;125].
Definition m_a3 (s : str) : option nat :=
  if has_prefix s_fzf_query s then Some (length s_fzf_query)
  else if has_prefix s_fzf_action s then Some (length s_fzf_action)
  else if has_prefix s_fzf_prompt s then Some (length s_fzf_prompt)
  else None.

Definition opt_char (c : Z) (s : str) : nat * str :=
  match s with x :: r => if x =? c then (1%nat, r) else (O, s) | [] => (O, s) end.
Definition m_a4 (s : str) : option nat :=
  let (n1, r1) := opt_char 43 s in
  let (n2, r2) := opt_char 102 r1 in
  match r2 with
  | c :: r3 =>
      if c =? 110 then
        let (n3, r4) := opt_char 102 r3 in
        if closes r4 then Some (n1 + n2 + 1 + n3 + 1)%nat else None
      else None
  | [] => None
  end.

(* length of the placeholder starting at the head of s (which must be '{'), if any *)
Definition match_at (s : str) : option nat :=
  match s with
  | c :: r =>
      if c =? c_lb then
        match m_a1 r with Some n => Some (S n) | None =>
        match m_a2 r with Some n => Some (S n) | None =>
        match m_a3 r with Some n => Some (S n) | None =>
        match m_a4 r with Some n => Some (S n) | None => None end end end end
      else None
  | [] => None
  end.

(* placeholder.ReplaceAllStringFunc: the template cut into literal text, escaped and live placeholders *)
Inductive piece := PLit (t : str) | PEsc (m : str) | PPh (m : str).

Definition flush_lit (lit : str) (rest : list piece) : list piece :=
  match lit with [] => rest | _ => PLit (rev lit) :: rest end.

(* skip = characters of the current match still to be passed over; lit = pending literal text (reversed) *)
Fixpoint scan (s : str) (skip : nat) (lit : str) : list piece :=
  match s with
  | [] => flush_lit lit []
  | c :: r =>
      match skip with
      | S k => scan r k lit
      | O =>
          match (if c =? c_bs then match_at r else None) with
          | Some n => flush_lit lit (PEsc (firstn n r) :: scan r n [])
          | None =>
              match match_at s with
              | Some (S n) => flush_lit lit (PPh (firstn (S n) s) :: scan r n [])
              | _ => scan r O (c :: lit)
              end
          end
      end
  end.

Definition piece_src (p : piece) : str :=
  match p with PLit t => t | PEsc m => c_bs :: m | PPh m => m end.

(* ---------- parsePlaceholder ---------- *)
Record flags := mkF { f_plus : bool; f_space : bool; f_number : bool; f_file : bool; f_raw : bool }.
Definition no_flags := mkF false false false false false.

Fixpoint pp_go (s : str) (fl : flags) (acc : str) : flags * str :=
  match s with
  | [] => (fl, rev acc)
  | c :: r =>
      if c =? 43 then pp_go r (mkF true (f_space fl) (f_number fl) (f_file fl) (f_raw fl)) acc
      else if c =? 115 then pp_go r (mkF (f_plus fl) true (f_number fl) (f_file fl) (f_raw fl)) acc
      else if c =? 110 then pp_go r (mkF (f_plus fl) (f_space fl) true (f_file fl) (f_raw fl)) acc
      else if c =? 102 then pp_go r (mkF (f_plus fl) (f_space fl) (f_number fl) true (f_raw fl)) acc
      else if c =? 114 then pp_go r (mkF (f_plus fl) (f_space fl) (f_number fl) (f_file fl) true) acc
      else pp_go r fl (c :: acc)
  end.

Definition s_fzf_colon : str := [123;102;122;102;58].   (* "{fzf:" *)
(* for a live (unescaped) match: flags and the match with its flag letters removed *)
Definition parse_placeholder (m : str) : res (flags * str) :=
  match m with
  | [] => Err OutOfRange                                  (* match[0] *)
  | _ :: r =>
      if has_prefix s_fzf_colon m then Ok (no_flags, m)
      else let (fl, t) := pp_go r no_flags [] in Ok (fl, c_lb :: t)
  end.

(* ---------- strconv ---------- *)
Definition is_digit (c : Z) : bool := (48 <=? c) && (c <=? 57).
Fixpoint digits_val (acc : Z) (s : str) : option Z :=
  match s with
  | [] => Some acc
  | c :: r => if is_digit c then digits_val (acc * 10 + (c - 48)) r else None
  end.
Definition int_min : Z := -9223372036854775808.
Definition int_max : Z := 9223372036854775807.
(* strconv.Atoi: optional sign, at least one digit, value must fit int (64 bit) *)
Definition atoi (s : str) : option Z :=
  let (neg, ds) := match s with
                   | c :: r => if c =? 45 then (true, r) else if c =? 43 then (false, r) else (false, s)
                   | [] => (false, s)
                   end in
  match ds with
  | [] => None
  | _ => match digits_val 0 ds with
         | Some v => let v := if neg then - v else v in
                     if (int_min <=? v) && (v <=? int_max) then Some v else None
         | None => None
         end
  end.

Fixpoint itoa_pos (fuel : nat) (n : Z) (acc : str) : str :=
  match fuel with
  | O => acc
  | S f => let acc := (48 + n mod 10) :: acc in
           if n / 10 =? 0 then acc else itoa_pos f (n / 10) acc
  end.
Definition bits (n : Z) : nat := match n with Zpos p => Pos.size_nat p | Zneg p => Pos.size_nat p | Z0 => O end.
(* strconv.Itoa *)
Definition itoa (n : Z) : str :=
  if n <? 0 then 45 :: itoa_pos (S (bits n)) (- n) [] else itoa_pos (S (bits n)) n [].

(* ---------- ParseRange / splitNth ---------- *)
Definition s_dd : str := [46;46].

(* strings.Split(s, ".."): leftmost non-overlapping *)
Fixpoint split_dd (s : str) (cur : str) : list str :=
  match s with
  | [] => [rev cur]
  | c :: r =>
      match r with
      | d :: r' => if (c =? 46) && (d =? 46) then rev cur :: split_dd r' [] else split_dd r (c :: cur)
      | [] => split_dd r (c :: cur)
      end
  end.

Definition rng := (Z * Z)%type.     (* Range{begin, end}; 0 = rangeEllipsis *)

Definition new_range (b e : Z) : rng :=
  let b := if (b =? 1) && negb (e =? 1) then 0 else b in
  let e := if e =? -1 then 0 else e in
  (b, e).

Definition atoi_nz (s : str) : option Z :=
  match atoi s with Some v => if v =? 0 then None else Some v | None => None end.

Definition parse_range (s : str) : option rng :=
  if str_eqb s s_dd then Some (new_range 0 0)
  else if has_prefix s_dd s then
    match atoi_nz (skipn 2 s) with Some e => Some (new_range 0 e) | None => None end
  else if has_suffix s_dd s then
    match atoi_nz (firstn (length s - 2) s) with Some b => Some (new_range b 0) | None => None end
  else match split_dd s [] with
       | [_] => (* no ".." *)
           match atoi_nz s with Some n => Some (new_range n n) | None => None end
       | [a; b] =>
           match atoi_nz a, atoi_nz b with
           | Some x, Some y => if (x <? 0) && (0 <? y) then None else Some (new_range x y)
           | _, _ => None
           end
       | _ => None
       end.

(* strings.Split(s, ",") *)
Fixpoint split_comma (s : str) (cur : str) : list str :=
  match s with
  | [] => [rev cur]
  | c :: r => if c =? 44 then rev cur :: split_comma r [] else split_comma r (c :: cur)
  end.

Fixpoint parse_ranges (es : list str) : option (list rng) :=
  match es with
  | [] => Some []
  | e :: r => match parse_range e, parse_ranges r with
              | Some x, Some xs => Some (x :: xs)
              | _, _ => None
              end
  end.

(* splitNth: regexp ^[0-9,-.]+$ then ParseRange on every comma-separated piece *)
Definition split_nth (s : str) : option (list rng) :=
  match s with
  | [] => None
  | _ => if forallb in_range s then parse_ranges (split_comma s []) else None
  end.

(* ---------- tokenizers ---------- *)
Inductive awk_state := AwkNil | AwkBlack | AwkWhite.
Definition awk_white (c : Z) : bool := (c =? 9) || (c =? 32).

(* awkTokenizer: the Go code keeps [begin,end) indexes into the input; cur is input[begin:end] reversed *)
Fixpoint awk_go (s : str) (st : awk_state) (cur : str) (ret : list str) : list str :=
  match s with
  | [] => match st with AwkNil => rev ret | _ => rev (rev cur :: ret) end
  | c :: r =>
      match st with
      | AwkNil => if awk_white c then awk_go r AwkNil cur ret else awk_go r AwkBlack [c] ret
      | AwkBlack => awk_go r (if awk_white c then AwkWhite else AwkBlack) (c :: cur) ret
      | AwkWhite => if awk_white c then awk_go r AwkWhite (c :: cur) ret
                    else awk_go r AwkBlack [c] (rev cur :: ret)
      end
  end.
Definition awk_tokens (s : str) : list str := awk_go s AwkNil [] [].

(* strings.SplitAfter(s, sep), sep non-empty *)
Fixpoint split_after (fuel : nat) (sep s cur : str) : res (list str) :=
  match fuel with
  | O => Err OutOfFuel
  | S f =>
      match s with
      | [] => Ok [rev cur]
      | c :: r =>
          match strip_prefix sep s with
          | Some rest => do l <- split_after f sep rest []; Ok ((rev cur ++ sep) :: l)
          | None => split_after f sep r (c :: cur)
          end
      end
  end.

(* Tokenize (token texts only): None = awk, Some d = plain-string delimiter *)
Definition tokenize (delim : option str) (s : str) : res (list str) :=
  match delim with
  | None => Ok (awk_tokens s)
  | Some [] => Err BadInput                    (* an empty delimiter is outside the model *)
  | Some d => split_after (S (length s)) d s []
  end.

(* tokens with 1-based index in [lo, hi], concatenated.  The Go loop `for idx := begin; idx <= end; idx++`
   visits the same tokens (it also spins over the out-of-range indexes, which append nothing). *)
Fixpoint sel_go (ts : list str) (i lo hi : Z) : str :=
  match ts with
  | [] => []
  | t :: r => (if (lo <=? i) && (i <=? hi) then t else []) ++ sel_go r (i + 1) lo hi
  end.
Definition sel (ts : list str) (lo hi : Z) : str := sel_go ts 1 lo hi.

(* Transform, one range: the merged text *)
Definition transform1 (ts : list str) (r : rng) : str :=
  let n := Z.of_nat (length ts) in
  let adj := fun x : Z => if x <? 0 then x + n + 1 else x in
  let (b, e) := r in
  if b =? e then
    (if b =? 0 then concat ts else sel ts (adj b) (adj b))
  else if b =? 0 then sel ts 1 (adj e)
  else if e =? 0 then sel ts (adj b) n
  else sel ts (adj b) (adj e).

(* JoinTokens(Transform(tokens, ranges)) *)
Definition transform_join (ts : list str) (rs : list rng) : str := concat (map (transform1 ts) rs).

(* ---------- strings.TrimSpace on UTF-8 bytes ----------
   unicode.IsSpace: U+0009..000D, 0020, 0085, 00A0, 1680, 2000..200A, 2028, 2029, 202F, 205F, 3000 *)
Definition ascii_space (c : Z) : bool := ((9 <=? c) && (c <=? 13)) || (c =? 32).
Definition space_len (s : str) : nat :=
  match s with
  | a :: r =>
      if ascii_space a then 1%nat
      else match r with
           | b :: r' =>
               if (a =? 194) && ((b =? 133) || (b =? 160)) then 2%nat
               else match r' with
                    | c :: _ =>
                        if (a =? 225) && (b =? 154) && (c =? 128) then 3%nat
                        else if (a =? 226) && (b =? 128) && (((128 <=? c) && (c <=? 138)) || (c =? 168) || (c =? 169) || (c =? 175)) then 3%nat
                        else if (a =? 226) && (b =? 129) && (c =? 159) then 3%nat
                        else if (a =? 227) && (b =? 128) && (c =? 128) then 3%nat
                        else O
                    | [] => O
                    end
           | [] => O
           end
  | [] => O
  end.
(* the same on the reversed string: last rune of a valid UTF-8 string *)
Definition space_len_rev (s : str) : nat :=
  match s with
  | c :: r =>
      if ascii_space c then 1%nat
      else match r with
           | b :: r' =>
               if (b =? 194) && ((c =? 133) || (c =? 160)) then 2%nat
               else match r' with
                    | a :: _ =>
                        if (a =? 225) && (b =? 154) && (c =? 128) then 3%nat
                        else if (a =? 226) && (b =? 128) && (((128 <=? c) && (c <=? 138)) || (c =? 168) || (c =? 169) || (c =? 175)) then 3%nat
                        else if (a =? 226) && (b =? 129) && (c =? 159) then 3%nat
                        else if (a =? 227) && (b =? 128) && (c =? 128) then 3%nat
                        else O
                    | [] => O
                    end
           | [] => O
           end
  | [] => O
  end.
Fixpoint trim_with (f : str -> nat) (fuel : nat) (s : str) : str :=
  match fuel with
  | O => s
  | S k => match f s with O => s | n => trim_with f k (skipn n s) end
  end.
Definition trim_space (s : str) : str :=
  let l := trim_with space_len (length s) s in
  rev (trim_with space_len_rev (length l) (rev l)).

(* ---------- replacePlaceholder ---------- *)
Definition item := (Z * str)%type.          (* item.text.Index, item.AsString(false) *)
Definition min_int32 : Z := -2147483648.    (* minItem.Index() *)

Record params := mkP {
  p_delim : option str;       (* params.delimiter: None = awk, Some d = string *)
  p_printsep : str;
  p_force_plus : bool;
  p_query : str;
  p_current : list item;      (* allItems[:1], [] when nil *)
  p_selected : list item;     (* allItems[1:], [] when its head is nil *)
  p_action : str;             (* params.lastAction.Name() *)
  p_prompt : str;
  p_fish : bool               (* which escaper the executor carries *)
}.

(* What one placeholder contributes.  OText: a string spliced verbatim.  OWords: one (encoded, value) pair
   per item, the encoded forms joined by blanks; `value` is the text the encoding stands for. *)
Inductive outp := OText (s : str) | OWords (l : list (str * str)).

Definition render (o : outp) : str :=
  match o with OText s => s | OWords l => join_sp (map fst l) end.

Definition s_q : str := [123;113;125].                                  (* {q} *)
Definition s_q_colon : str := [123;113;58].                             (* {q: *)
Definition s_braces : str := [123;125].                                 (* {} *)
Definition s_m_query : str := c_lb :: s_fzf_query.
Definition s_m_action : str := c_lb :: s_fzf_action.
Definition s_m_prompt : str := c_lb :: s_fzf_prompt.
Definition s_empty_quotes : str := [39;39].

Definition quoted (p : params) (v : str) : str * str := (quote_entry (p_fish p) v, v).

(* the `replace` closures *)
Definition repl_item (p : params) (fl : flags) (it : item) : str * str :=
  let (idx, text) := it in
  if f_number fl then
    (if idx =? min_int32 then (s_empty_quotes, []) else (itoa idx, itoa idx))
  else if f_file fl || f_raw fl then (text, text)
  else quoted p text.

Definition field_value (p : params) (fl : flags) (rs : list rng) (text : str) : res str :=
  do ts <- tokenize (p_delim p) text;
  let s := transform_join ts rs in
  let s := match p_delim p with Some d => trim_suffix s d | None => s end in
  Ok (if f_space fl then s else trim_space s).

Definition repl_fields (p : params) (fl : flags) (rs : list rng) (it : item) : res (str * str) :=
  do v <- field_value p fl rs (snd it);
  Ok (if f_file fl || f_raw fl then (v, v) else quoted p v).

Fixpoint map_res {A B} (f : A -> res B) (l : list A) : res (list B) :=
  match l with
  | [] => Ok []
  | x :: r => do y <- f x; do ys <- map_res f r; Ok (y :: ys)
  end.

(* items the placeholder ranges over, then join / temp file.
   temps: names that WriteTemporaryFile will return, in order (an input of the model);
   result: output, contents of the files written, remaining names *)
Definition over_items (p : params) (fl : flags) (raw : bool) (f : item -> res (str * str)) (temps : list str)
  : res (outp * list str * list str) :=
  let items := if f_plus fl || p_force_plus p then p_selected p else p_current p in
  do reps <- map_res f items;
  if f_file fl then
    match temps with
    | name :: rest => Ok (OText name, [join_str (p_printsep p) (map fst reps) ++ p_printsep p], rest)
    | [] => Err BadInput
    end
  else if raw then Ok (OText (join_sp (map fst reps)), [], temps)      (* unquoted by documentation *)
  else Ok (OWords reps, [], temps).

Definition expand_ph (p : params) (m : str) (temps : list str) : res (outp * list str * list str) :=
  do fm <- parse_placeholder m;
  let (fl, mm) := fm in
  if str_eqb mm s_q || str_eqb mm s_m_query then Ok (OWords [quoted p (p_query p)], [], temps)
  else if has_prefix s_q_colon mm then
    do body <- mid 3 mm;
    match split_nth body with
    | Some rs =>
        let s := transform_join (awk_tokens (p_query p)) rs in
        Ok (OWords [quoted p (if f_space fl then s else trim_space s)], [], temps)
    | None => Ok (OText mm, [], temps)
    end
  else if str_eqb mm s_braces then over_items p fl (negb (f_number fl) && (f_file fl || f_raw fl)) (fun it => Ok (repl_item p fl it)) temps
  else if str_eqb mm s_m_action then Ok (OText (p_action p), [], temps)
  else if str_eqb mm s_m_prompt then Ok (OWords [quoted p (p_prompt p)], [], temps)
  else
    do body <- mid 1 mm;
    match parse_ranges (split_comma body []) with
    | Some rs => over_items p fl (f_file fl || f_raw fl) (repl_fields p fl rs) temps
    | None => Ok (OText mm, [], temps)
    end.

Fixpoint expand_all (p : params) (ps : list piece) (temps : list str) : res (list outp * list str) :=
  match ps with
  | [] => Ok ([], [])
  | PLit t :: r => do x <- expand_all p r temps; Ok (OText t :: fst x, snd x)
  | PEsc m :: r => do x <- expand_all p r temps; Ok (OText m :: fst x, snd x)
  | PPh m :: r =>
      do y <- expand_ph p m temps;
      let '(o, files, temps') := y in
      do x <- expand_all p r temps';
      Ok (o :: fst x, files ++ snd x)
  end.

(* structured result: what each piece of the template became *)
Definition replace_structured (p : params) (template : str) (temps : list str) : res (list outp * list str) :=
  expand_all p (scan template O []) temps.

(* replacePlaceholder: the command line and the contents of the temp files *)
Definition replace_placeholder (p : params) (template : str) (temps : list str) : res (str * list str) :=
  do x <- replace_structured p template temps;
  Ok (concat (map render (fst x)), snd x).
