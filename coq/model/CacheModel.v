(* C08/C13 model of src/cache.go (ChunkCache).

   Go: map[*Chunk]*queryCache, queryCache = map[string][]Result.  Here: an association
   list keyed by (chunk id, key), newest binding first (a map assignment shadows the old
   binding; `retire` deletes every binding of a chunk).  `clen` is chunk.count of the
   chunk passed by the caller (IsFull() is clen == chunkSize).  Keys are Go strings
   (bytes); the prefix/suffix scan of Search is by byte index like the code. *)
From Fzf Require Import Prelude ChunkStoreModel.

Definition query_cache_max : nat := 20.      (* constants.go: queryCacheMax = chunkSize / 5 *)

Section Cache.
  Variable R : Type.                         (* a Result *)

  Definition centry := (nat * str * list R)%type.
  (* c_gen: ChunkCache.generation, advanced by Invalidate(); a Pattern remembers the generation it
     was built under (cacheGen) and AddIfCurrent drops its results when the two differ *)
  Record cache := mkCache { c_entries : list centry; c_gen : nat }.
  Definition cache_new : cache := mkCache [] 0.

  Definition is_full (clen : nat) : bool := Nat.eqb clen chunk_size.

  Fixpoint efind (c : list centry) (id : nat) (key : str) : option (list R) :=
    match c with
    | [] => None
    | (i, k, l) :: r => if (Nat.eqb i id && str_eqb k key)%bool then Some l else efind r id key
    end.
  Definition cfind (c : cache) (id : nat) (key : str) : option (list R) := efind (c_entries c) id key.

  (* ChunkCache.add(generation, ...): Add passes no generation (-1), AddIfCurrent the pattern's *)
  Definition cache_add_gen (g : option nat) (c : cache) (clen id : nat) (key : str) (l : list R) : cache :=
    if (negb (nonemptyb key) || negb (is_full clen) || Nat.ltb query_cache_max (length l))%bool then c
    else match g with
         | Some g' => if Nat.eqb g' (c_gen c) then mkCache ((id, key, l) :: c_entries c) (c_gen c) else c
         | None => mkCache ((id, key, l) :: c_entries c) (c_gen c)
         end.
  Definition cache_add := cache_add_gen None.
  (* the rule before commit 2b9f419: Pattern.Match called Add, whatever the generation *)
  Definition cache_add_rule (fixed : bool) (g : nat) := cache_add_gen (if fixed then Some g else None).

  (* ChunkCache.Lookup (None = nil) *)
  Definition cache_lookup (c : cache) (clen id : nat) (key : str) : option (list R) :=
    if (negb (nonemptyb key) || negb (is_full clen))%bool then None else cfind c id key.

  (* ChunkCache.Search: for idx = 1 .. len(key)-1: key[:len-idx], then key[idx:] *)
  Fixpoint search_from (c : cache) (id : nat) (key : str) (idx : nat) (n : nat) : option (list R) :=
    match n with
    | O => None
    | S n' =>
        match cfind c id (firstn (length key - idx) key) with
        | Some l => Some l
        | None =>
            match cfind c id (skipn idx key) with
            | Some l => Some l
            | None => search_from c id key (S idx) n'
            end
        end
    end.
  Definition cache_search (c : cache) (clen id : nat) (key : str) : option (list R) :=
    if (negb (nonemptyb key) || negb (is_full clen))%bool then None
    else search_from c id key 1 (length key - 1).

  (* ChunkCache.retire / Clear *)
  Definition cache_retire (c : cache) (ids : list nat) : cache :=
    mkCache (filter (fun e => negb (existsb (Nat.eqb (fst (fst e))) ids)) (c_entries c)) (c_gen c).
  Definition cache_clear (c : cache) : cache := mkCache [] (c_gen c).
  Definition cache_invalidate (c : cache) : cache := mkCache [] (S (c_gen c)).
End Cache.

Arguments cfind {R} c id key.
Arguments cache_add {R} c clen id key l.
Arguments cache_lookup {R} c clen id key.
Arguments cache_search {R} c clen id key.
Arguments search_from {R} c id key idx n.
Arguments cache_retire {R} c ids.
Arguments cache_clear {R} c.
Arguments cache_invalidate {R} c.
Arguments cache_add_gen {R} g c clen id key l.
Arguments cache_add_rule {R} fixed g c clen id key l.
Arguments cache_new {R}.
Arguments mkCache {R} c_entries c_gen.
Arguments c_entries {R} c.
Arguments c_gen {R} c.
Arguments efind {R} c id key.
