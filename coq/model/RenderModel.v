(* C15 model: the drawing code of src/terminal.go restated for the plain configuration
   (--no-unicode --no-color --no-scrollbar --no-hscroll, no border/preview/wrap/gap/multi-line,
   ASCII/width-1 text, query that fits the prompt row):
     constrain            Terminal.constrain   (numItems = maxLines: every item takes one line)
     print_item/draw_rows Terminal.printItem + printHighlighted (non-hscroll truncation) + the prevLines test
     print_list           Terminal.printList   print_prompt  printPrompt   print_info  printInfoImpl
     print_header         printHeaderImpl      full_redraw   fullRedraw -> printAll
     handle               one round of the render goroutine (requests sorted by their number; info last)
   The screen buffer is kept in LOGICAL line numbers (the y of Terminal.move before the layout
   flips it): line 0 prompt, 1 info/separator, then header, then the list.  `physical` applies
   Terminal.move's mapping (and the window placement of resizeWindows for reverse-list with
   --header-lines, where the header lines get their own window on top).
   Not modelled (never reached in this configuration): itemLine.other / firstLine / hasBar (printBar only
   clears column W-1, which no list write reaches), Result.points in the prevLines comparison (the
   model skips a row when the item index agrees; the code additionally wants equal rank and redraws
   otherwise, which paints the same cells). *)
From Fzf Require Import Prelude RenderSpec.
Open Scope nat_scope.

(* util.Constrain *)
Definition clampn (v lo hi : nat) : nat := if v <? lo then lo else if hi <? v then hi else v.

(* ---- Terminal.constrain ---- *)
Section Constrain.
  Variables (count maxl so cy minO maxO : nat).
  Definition lines_before (o : nat) := cy - o.
  Definition lines_after (o : nat) := maxl - (lines_before o + 1).
  Definition stuck (o : nat) := (lines_before o <? so) && (lines_after o <? so).
  (* phase 0: move the offset up while there are too few lines before the cursor *)
  Fixpoint phase0 (o : nat) : nat :=
    if stuck o then o
    else if lines_before o <? so then
      match o with
      | O => Nat.max minO 0
      | S p => if minO <=? p then phase0 p else Nat.max minO p
      end
    else o.
  (* phase 1: move it down while there are too few lines after; d = distance left to maxOffset *)
  Fixpoint phase1 (d : nat) (o : nat) : nat :=
    if stuck o then o
    else if lines_after o <? so then
      match d with
      | O => Nat.min maxO (S o)
      | S d' => if S o <=? maxO then phase1 d' (S o) else Nat.min maxO (S o)
      end
    else o.
End Constrain.

Definition constrain_body (count maxl scrolloff cy off : nat) : nat * nat :=
  let cy := clampn cy 0 (Nat.max 0 (count - 1)) in
  let minO := cy + 1 - maxl in
  let maxO := Nat.max (Nat.min (count - maxl) cy) 0 in
  let off := clampn off minO maxO in
  if 0 <? scrolloff then
    let so := Nat.min (maxl / 2) scrolloff in
    let o0 := phase0 maxl so cy minO off in
    let o1 := phase1 maxl so cy maxO (maxO - o0) o0 in
    (cy, o1)
  else (cy, off).

Fixpoint constrain_loop (tries : nat) (count maxl scrolloff cy off : nat) : nat * nat :=
  match tries with
  | O => (cy, off)
  | S tr =>
      let '(cy', off') := constrain_body count maxl scrolloff cy off in
      if off' =? off then (cy', off') else constrain_loop tr count maxl scrolloff cy' off'
  end.

Definition constrain (count maxl scrolloff cy off : nat) : nat * nat :=
  constrain_loop maxl count maxl scrolloff cy (clampn off 0 count).

(* ---- screen buffer ---- *)
Definition put (x : nat) (s : str) (r : row) : row := firstn x r ++ s ++ skipn (x + length s) r.   (* Print at column x *)
Definition clear_from (w x : nat) (r : row) : row := firstn x r ++ repeat SP (w - x).              (* MoveAndClear *)
Fixpoint upd_at {A} (y : nat) (f : A -> A) (l : list A) : list A :=       (* no effect when y is outside the window *)
  match l, y with
  | [], _ => []
  | r :: t, O => f r :: t
  | r :: t, S y' => r :: upd_at y' f t
  end.

(* prevLines entry *)
Record iline := mkIL { il_valid : bool; il_empty : bool; il_cur : bool; il_sel : bool;
                       il_qlen : nat; il_width : nat; il_idx : option nat }.
Definition il_none : iline := mkIL false false false false 0 0 None.     (* zero value *)
Definition il_blank : iline := mkIL true true false false 0 0 None.      (* markEmptyLine *)

Record term := mkTerm {
  t_prompt : str;          (* promptString (its display length is promptLen) *)
  t_query : str; t_matches : list (nat * str); t_total : nat; t_cy : nat; t_off : nat; t_sel : list nat;
  t_screen : list row;     (* logical line -> cells *)
  t_prev : list iline      (* prevLines *)
}.
Definition t_view (t : term) : view := mkView (t_prompt t) (t_query t) (t_matches t) (t_total t) (t_cy t) (t_off t) (t_sel t).
Definition set_draw (t : term) (s : list row) (p : list iline) : term :=
  mkTerm (t_prompt t) (t_query t) (t_matches t) (t_total t) (t_cy t) (t_off t) (t_sel t) s p.
Definition set_scroll (t : term) (cy off : nat) : term :=
  mkTerm (t_prompt t) (t_query t) (t_matches t) (t_total t) cy off (t_sel t) (t_screen t) (t_prev t).

(* printHighlighted, !hscroll branch: displayWidth = RunesWidth(line, 0, tabstop, maxWidth); when it is too wide
   trimRight(line, maxWidth - ellipsisWidth) ++ ellipsis; printColoredString then expands the tabs with a column
   that runs from the start of the text across all colour segments (processTabs(text, prefixWidth)) *)
Definition item_text (ts maxw : nat) (s : str) : str :=
  if maxw <? length (expand ts s) then
    let ew := Nat.min (maxw / 2) 2 in      (* util.Truncate("..", maxWidth/2) *)
    expand ts (take_width ts (maxw - ew) s) ++ repeat DOT ew
  else expand ts s.
(* the prompt string (no tabs in the modelled domain) *)
Definition prompt_item_text (maxw : nat) (s : str) : str :=
  if maxw <? length s then
    let ew := Nat.min (maxw / 2) 2 in
    firstn (maxw - ew) s ++ repeat DOT ew
  else s.

Definition idx_is (o : option nat) (i : nat) : bool := match o with Some j => Nat.eqb i j | None => false end.

(* printItem *)
Definition print_item (w ts cy qlen : nat) (sel : list nat) (pos : nat) (m : nat * str) (pr : iline * row) : iline * row :=
  let '(p, r) := pr in
  let cur := Nat.eqb pos cy in
  let selected := memb (fst m) sel in
  let force := negb (il_valid p) in
  if negb force && Bool.eqb (il_cur p) cur && Bool.eqb (il_sel p) selected && (il_qlen p =? qlen)
     && idx_is (il_idx p) (fst m)                           (* an empty or invalid entry holds no item *)
  then pr                                                   (* "Avoid unnecessary redraw" *)
  else
    let maxw := w - 3 in
    let txt := item_text ts maxw (snd m) in
    let width := length txt in
    let lblmk := (if 1 <=? w then [if cur then GT else SP] else []) ++
                 (if 2 <=? w then [if selected then GT else SP] else []) in
    let fill := (if force then maxw else il_width p) - width in
    let r1 := put 0 (lblmk ++ txt ++ repeat SP fill) r in
    let r2 := if force || (width =? 0) then clear_from w (w - 1) r1 else r1 in   (* printBar(forceRedraw || width == 0) *)
    (mkIL true false cur selected qlen width (Some (fst m)), r2).

(* the loop of printList over consecutive lines; ms = results from the offset on, pos = position of its head *)
Fixpoint draw_rows (w ts cy qlen : nat) (sel : list nat) (pos : nat) (ms : list (nat * str))
                   (prs : list (iline * row)) : list (iline * row) :=
  match prs with
  | [] => []
  | pr :: rest =>
      match ms with
      | m :: ms' => print_item w ts cy qlen sel pos m pr :: draw_rows w ts cy qlen sel (S pos) ms' rest
      | [] => (if il_empty (fst pr) then pr else (il_blank, clear_from w 0 (snd pr)))   (* renderEmptyLine *)
              :: draw_rows w ts cy qlen sel pos [] rest
      end
  end.

Definition list_start (c : cfg) : nat := prompt_lines c + nheader c.

(* printList after constrain *)
Definition print_list_at (c : cfg) (t : term) : term :=
  let start := list_start c in
  let n := max_items c in
  let seg := combine (firstn n (skipn start (t_prev t))) (firstn n (skipn start (t_screen t))) in
  let seg' := draw_rows (c_w c) (c_tabstop c) (t_cy t) (length (t_query t)) (t_sel t) (t_off t) (skipn (t_off t) (t_matches t)) seg in
  set_draw t (firstn start (t_screen t) ++ map snd seg' ++ skipn (start + n) (t_screen t))
             (firstn start (t_prev t) ++ map fst seg' ++ skipn (start + n) (t_prev t)).

Definition scroll_off_default : nat := 3.

Definition print_list (c : cfg) (t : term) : term :=
  let '(cy, off) := constrain (length (t_matches t)) (max_items c) scroll_off_default (t_cy t) (t_off t) in
  print_list_at c (set_scroll t cy off).

(* printPrompt: the prompt string goes through printHighlighted (clears the line, cut to W-2), then the query *)
Definition print_prompt (c : cfg) (t : term) : term :=
  let w := c_w c in
  set_draw t (upd_at 0 (fun r => put 0 (prompt_item_text (w - 2) (t_prompt t) ++ t_query t) (clear_from w 0 r)) (t_screen t)) (t_prev t).

(* printInfoImpl *)
Definition print_info (c : cfg) (t : term) : term :=
  let w := c_w c in
  let out := info_text c (t_view t) in
  let clr (x : nat) (r : row) := if c_sep c then r else clear_from w x r in
  let scr :=
    match c_info c with
    | IHidden => if c_sep c then upd_at 1 (put 0 (repeat DASH (w - 1) ++ [SP])) (t_screen t) else t_screen t
    | IDefault => upd_at 1 (fun r => put 0 ([SP; SP] ++ info_tail c (w - 3) out) (clr 0 r)) (t_screen t)
    | IInline =>
        let pos := length (t_prompt t) + length (t_query t) + 1 in
        upd_at 0 (fun r => put pos ([SP; LT; SP] ++ info_tail c (w - (pos + 3) - 1) out) (clr pos r)) (t_screen t)
    | IInlineRight =>
        (* no info prefix: blanks up to W-len-3, the spinner column, a margin column, the text; then the
           separator on the next line *)
        let pos := length (t_prompt t) + length (t_query t) + 1 in
        let newpos := Nat.max pos (w - length out - 3) in
        let pos1 := if newpos <? w then S newpos else newpos in
        let pos2 := if pos1 <? w - 1 then S pos1 else pos1 in
        let s := repeat SP (newpos - pos) ++ (if newpos <? w then [SP] else []) ++ (if pos1 <? w - 1 then [SP] else [])
                 ++ trim_msg (w - pos2 - 1) out in
        let scr1 := upd_at 0 (put pos s) (t_screen t) in
        if c_sep c then upd_at 1 (put 0 (repeat DASH (w - 1) ++ [SP])) scr1 else scr1
    end in
  set_draw t scr (t_prev t).

(* header lines in logical order: --header is reversed where the layout runs bottom-up; --header-lines follow *)
Definition hdr_logical (c : cfg) : list str :=
  (match c_layout c with LReverse => c_header c | _ => rev (c_header c) end) ++ c_hlines c.

Fixpoint print_header_from (w ts : nat) (line : nat) (hs : list str) (scr : list row) : list row :=
  match hs with
  | [] => scr
  | h :: r => print_header_from w ts (S line) r
                (upd_at line (fun row => put 0 ([SP; SP] ++ item_text ts (w - 3) h) (clear_from w 0 row)) scr)
  end.
Definition print_header (c : cfg) (t : term) : term :=
  set_draw t (print_header_from (c_w c) (c_tabstop c) (prompt_lines c) (hdr_logical c) (t_screen t)) (t_prev t).

(* what printAll paints on an erased window, for the scroll position held in t *)
Definition paint (c : cfg) (t : term) : term :=
  let t0 := set_draw t (repeat (blank (c_w c)) (c_h c)) (repeat il_none (c_h c)) in
  print_header c (print_info c (print_prompt c (print_list_at c t0))).

(* fullRedraw: Clear; resizeWindows resets prevLines; printAll (printList constrains first) *)
Definition full_redraw (c : cfg) (t : term) : term :=
  let '(cy, off) := constrain (length (t_matches t)) (max_items c) scroll_off_default (t_cy t) (t_off t) in
  paint c (set_scroll t cy off).

(* render requests of one round *)
Record reqs := mkReqs { rq_prompt : bool; rq_info : bool; rq_header : bool; rq_list : bool; rq_full : bool }.

(* the render loop: reqPrompt repaints (clears) the prompt line, so the info sharing that line is printed again *)
Definition is_inline (c : cfg) : bool := match c_info c with IInline | IInlineRight => true | _ => false end.

Definition handle (c : cfg) (rq : reqs) (t : term) : term :=
  let t := if rq_prompt rq then print_prompt c t else t in
  let t := if rq_header rq then print_header c t else t in
  let t := if rq_list rq then print_list c t else t in
  let t := if rq_full rq then full_redraw c t else t in
  if rq_info rq || (rq_prompt rq && is_inline c) then print_info c t else t.

(* one step of a history: the actions changed the fields, then asked for redraws *)
Record upd := mkUpd { u_prompt : str; u_query : str; u_matches : list (nat * str); u_total : nat; u_cy : nat; u_sel : list nat; u_reqs : reqs }.
Definition step (c : cfg) (t : term) (u : upd) : term :=
  handle c (u_reqs u) (mkTerm (u_prompt u) (u_query u) (u_matches u) (u_total u) (u_cy u) (t_off t) (u_sel u) (t_screen t) (t_prev t)).
Definition run (c : cfg) (t : term) (us : list upd) : term := fold_left (step c) us t.

Definition term_of_view (v : view) : term :=
  mkTerm (v_prompt v) (v_query v) (v_matches v) (v_total v) (v_cy v) (v_off v) (v_sel v) [] [].
Definition start (c : cfg) (v : view) : term := full_redraw c (term_of_view v).

(* Terminal.move: logical line -> row of the window *)
Definition physical (c : cfg) (ls : list row) : list row :=
  match c_layout c with
  | LDefault => rev ls
  | LReverse => ls
  | LReverseList =>
      let pl := prompt_lines c in
      let n0 := length (c_header c) in
      let n1 := length (c_hlines c) in
      firstn n1 (skipn (pl + n0) ls) ++ skipn (pl + n0 + n1) ls ++ rev (firstn n0 (skipn pl ls)) ++ rev (firstn pl ls)
  end.

(* the full render of a state whose scroll position is already constrained *)
Definition render (c : cfg) (v : view) : list row := physical c (t_screen (paint c (term_of_view v))).
