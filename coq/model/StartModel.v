(* C14, commands that cannot be started: executable restatement of
     src/reader.go   readFromCommand, ReadSource, restart  (what they do to readyChan, r.mutex, the event box)
     src/core.go     the coordinator loop of Run as far as reloads and the exit request go
                     (the `restart` closure, EvtReadNew / EvtReadFin / EvtSearchNew / EvtQuit)
   No proofs here. *)
From Fzf Require Import Prelude StartSpec.
Open Scope Z_scope.

(* what the environment decides about a command *)
Record cmd := mkCmd {
  cm_start_ok : bool;    (* exec.StdoutPipe() and exec.Start() succeeded: false for a shell that does not exist / is not
                            executable / is a directory, and for a command line over the kernel's limits (E2BIG) *)
  cm_wait_ok : bool      (* exec.Wait() == nil *)
}.

(* func (r *Reader) readFromCommand(command, environ, signalReady) bool
     r.mutex.Lock(); ...; execOut, err := exec.StdoutPipe()
     if err != nil || exec.Start() != nil { signalReady(); r.mutex.Unlock(); return false }
     r.termFunc = ...; signalReady(); r.mutex.Unlock(); r.feed(execOut); return exec.Wait() == nil *)
Definition read_from_command (c : cmd) (signal : list rev) : list rev * bool :=
  if cm_start_ok c then ([RLock] ++ signal ++ [RUnlock; RFeed], cm_wait_ok c)
  else ([RLock] ++ signal ++ [RUnlock], false).

(* where ReadSource takes the list from *)
Inductive src := SChan | SInitCmd | STtyDefaultCmd | STtyWalker | SStdin.

(* func (r *Reader) ReadSource(inputChan, roots, opts, ignores, initCmd, initEnv, readyChan)
   signalReady sends only when readyChan != nil; r.command is only set by readFromCommand, so EvtReadFin carries
   a command string only for a command that failed *)
Definition read_source (s : src) (ready : bool) (c : cmd) (walk_ok : bool) : list rev :=
  let signal := if ready then [RSend] else [] in
  match s with
  | SChan => signal ++ [RFeed; RFin false]
  | SInitCmd | STtyDefaultCmd =>
      let '(tr, ok) := read_from_command c signal in tr ++ [RFin (negb ok)]
  | STtyWalker => signal ++ [RFeed; RFin false]     (* readFiles: a failed walk has no command to report either *)
  | SStdin => signal ++ [RFeed; RFin false]
  end.

(* func (r *Reader) restart(command commandSpec, environ, readyChan):
     success := r.readFromCommand(command.command, environ, func() { readyChan <- true }); r.fin(success); removeFiles(...) *)
Definition restart_trace (c : cmd) : list rev :=
  let '(tr, ok) := read_from_command c [RSend] in tr ++ [RFin (negb ok); RRemove].

(* ------------------------------------------------------------------ the coordinator *)
Record cstate := mkC {
  c_reading : bool;           (* core.go: reading *)
  c_next : option cmd;        (* nextCommand *)
  c_held : bool;              (* reader.mutex is held by a goroutine that will never release it *)
  c_blocked : bool;           (* the coordinator sits in `<-readyChan` or in r.mutex.Lock() for ever *)
  c_stop : bool;              (* EvtQuit has been processed: Run returns, the process ends *)
  c_leaked : nat              (* reader goroutines that block for ever *)
}.
Definition c0 : cstate := mkC true None false false false 0.   (* the initial source is being read *)

Inductive cev :=
| CSearchNew (command : option cmd)   (* EvtSearchNew; Some c: the request of a reload action *)
| CReadNew
| CReadFin
| CQuit.

(* reader.terminate(): r.mutex.Lock(); ...; r.mutex.Unlock() *)
Definition do_terminate (st : cstate) : cstate :=
  if c_held st then mkC (c_reading st) (c_next st) true true (c_stop st) (c_leaked st) else st.

(* restart := func(command, environ) { ...; reading = true; ...; readyChan := make(chan bool);
                                        go reader.restart(command, environ, readyChan); <-readyChan } *)
Definition do_restart (rd : cmd -> list rev) (c : cmd) (st : cstate) : cstate :=
  let r := run_reader (c_held st) true (rd c) in
  mkC true (c_next st) (rr_held r) (rr_waiting r) (c_stop st) (c_leaked st + (if rr_stuck r then 1 else 0)).

Definition c_step (rd : cmd -> list rev) (st : cstate) (e : cev) : cstate :=
  if c_blocked st || c_stop st then st else
  match e with
  | CQuit =>
      let st := if c_reading st then do_terminate st else st in
      if c_blocked st then st else mkC (c_reading st) (c_next st) (c_held st) false true (c_leaked st)
  | CReadNew => st
  | CReadFin =>
      match c_next st with
      | Some c => do_restart rd c (mkC (c_reading st) None (c_held st) false (c_stop st) (c_leaked st))
      | None => mkC false None (c_held st) false (c_stop st) (c_leaked st)
      end
  | CSearchNew None => st
  | CSearchNew (Some c) =>
      if c_reading st then
        let st := do_terminate st in
        if c_blocked st then st else mkC true (Some c) (c_held st) false (c_stop st) (c_leaked st)
      else do_restart rd c st
  end.

Definition c_run (rd : cmd -> list rev) (st : cstate) (es : list cev) : cstate := fold_left (c_step rd) es st.
