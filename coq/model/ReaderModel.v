(* C06 model, part 1: Reader.feed of src/reader.go restated.

   Buffer sizes are parameters (bufsz = readerBufferSize, slabsz = readerSlabSize).
   Memory is explicit: a list of byte buffers; a Go slice is (buffer id, offset, length).
   The slab is such a slice that shrinks from the front (`slab = slab[n:]`); a read fills
   `scope = slab[:min(len(slab), bufsz)]` from its start; items that lie inside one read are
   slices of the slab (NOT copies), items that straddle reads are freshly allocated buffers
   (`append(leftover, slice...)`).  What an item contains is read back from memory AFTER the
   whole stream was processed (deref), so an overwritten slab region would show.

   The operating system is an input of the model: the stream `s` and a list `cuts` of the byte
   counts successive read() calls are willing to deliver (0 = a (0,nil) read; when the list is
   exhausted every read fills the scope).  A read returns min(cut, len(scope), bytes left);
   with no bytes left it returns (0, EOF).  A read returning (n>0, EOF) is outside the domain
   (os.File never does it), so inside the loop err is always nil.

   Every index / slice access is checked.  No proofs here. *)
From Fzf Require Import Prelude RecordSpec.
Open Scope Z_scope.

Record slice := mkSlice { sl_buf : nat; sl_off : nat; sl_len : nat }.
Definition mem := list str.

(* checked l[:n], l[n:] and copy(l, data): cost proportional to the part touched *)
Fixpoint take_exact {A} (n : nat) (l : list A) : res (list A) :=
  match n, l with
  | O, _ => Ok []
  | S n, x :: t => do r <- take_exact n t; Ok (x :: r)
  | S _, [] => Err OutOfRange
  end.
Fixpoint drop_exact {A} (n : nat) (l : list A) : res (list A) :=
  match n, l with
  | O, _ => Ok l
  | S n, _ :: t => drop_exact n t
  | S _, [] => Err OutOfRange
  end.
Fixpoint overwrite {A} (data l : list A) : res (list A) :=
  match data, l with
  | [], _ => Ok l
  | x :: d, _ :: t => do r <- overwrite d t; Ok (x :: r)
  | _ :: _, [] => Err OutOfRange
  end.
Fixpoint write_off {A} (off : nat) (data l : list A) : res (list A) :=
  match off, l with
  | O, _ => overwrite data l
  | S k, x :: t => do r <- write_off k data t; Ok (x :: r)
  | S _, [] => Err OutOfRange
  end.

Definition deref (m : mem) (s : slice) : res str :=
  do b <- get m (sl_buf s);
  do t <- drop_exact (sl_off s) b;
  take_exact (sl_len s) t.

(* copy data into buffer id at offset off (what src.Read does to scope[:n]) *)
Definition write_at (m : mem) (id off : nat) (data : str) : res mem :=
  do b <- get m id;
  do b' <- write_off off data b;
  set_nth m id b'.

Definition alloc (m : mem) (b : str) : mem * nat := (m ++ [b], length m).

Definition CR : Z := 13.

(* bytes.IndexByte *)
Fixpoint index_byte (s : str) (d : Z) : option nat :=
  match s with
  | [] => None
  | c :: r => if c =? d then Some O else option_map S (index_byte r d)
  end.

Record fstate := mkF {
  f_mem : mem;
  f_left : str;            (* leftover: an owned buffer, never aliased *)
  f_items : list slice     (* what was handed to the pusher, newest first *)
}.

(* `if len(leftover) > 0 { slice = append(leftover, slice...); leftover = []byte{} }; pusher(slice)` *)
Definition emit (st : fstate) (sl : slice) : res fstate :=
  match f_left st with
  | [] => Ok (mkF (f_mem st) [] (sl :: f_items st))
  | l =>
      do v <- deref (f_mem st) sl;
      let joined := l ++ v in
      let '(m', id) := alloc (f_mem st) joined in
      Ok (mkF m' [] (mkSlice id 0 (length joined) :: f_items st))
  end.

(* the inner `for len(buf) > 0` loop.  buf = (id, off, length data); data = its contents
   (memory is not written while this loop runs). *)
Fixpoint scan_buf (fuel : nat) (d : Z) (trimCR : bool) (id off : nat) (data : str) (st : fstate)
  : res fstate :=
  match fuel with
  | O => Err OutOfFuel
  | S fuel =>
    match data with
    | [] => Ok st
    | _ =>
      match index_byte data d with
      | Some i =>
          (* slice = buf[:i+1]; then drop the delimiter, and a preceding \r on Windows *)
          do n <- (if trimCR && (2 <=? S i)%nat
                   then do c <- get data (i - 1); Ok (if c =? CR then (i - 1)%nat else i)
                   else Ok i);
          do st' <- emit st (mkSlice id off n);
          scan_buf fuel d trimCR id (S i + off) (skipn (S i) data) st'
      | None =>
          Ok (mkF (f_mem st) (f_left st ++ data) (f_items st))
      end
    end
  end.

(* `for i := 0; i < 100; i++ { n, err = src.Read(scope); if n > 0 || err != nil { break } }`
   returns the bytes delivered ([] = n == 0) and the remaining cut list *)
(* scope = slab[:min(len(slab), bufsz)]; a read delivers min(cut, len(scope), bytes left) *)
Fixpoint read_retry (tries slablen bufsz : nat) (rest : str) (cuts : list nat) : str * list nat :=
  match tries with
  | O => ([], cuts)
  | S t =>
    match rest with
    | [] => ([], cuts)                                   (* (0, io.EOF) *)
    | _ =>
      let '(n, cuts') := match cuts with
                         | [] => (Nat.min slablen bufsz, [])
                         | c :: r => (Nat.min (Nat.min c slablen) bufsz, r)
                         end in
      match firstn n rest with
      | [] => read_retry t slablen bufsz rest cuts'      (* (0, nil): try again *)
      | chunk => (chunk, cuts')
      end
    end
  end.

Definition read_tries : nat := 100.

Fixpoint feed_loop (fuel bufsz slabsz : nat) (d : Z) (trimCR : bool)
         (rest : str) (cuts : list nat) (slab : slice) (st : fstate) : res fstate :=
  match fuel with
  | O => Err OutOfFuel
  | S fuel =>
    let '(chunk, cuts') := read_retry read_tries (sl_len slab) bufsz rest cuts in
    match chunk with
    | [] => Ok st                                        (* n == 0: stop *)
    | _ =>
      let n := length chunk in
      do m <- write_at (f_mem st) (sl_buf slab) (sl_off slab) chunk;
      let buf := mkSlice (sl_buf slab) (sl_off slab) n in                       (* slab[:n] *)
      let slab1 := mkSlice (sl_buf slab) (n + sl_off slab) (sl_len slab - n) in (* slab[n:] *)
      do data <- deref m buf;
      do st1 <- scan_buf (S n) d trimCR (sl_buf buf) (sl_off buf) data
                         (mkF m (f_left st) (f_items st));
      let '(slab2, st2) :=
        if (sl_len slab1 =? 0)%nat
        then let '(m', id) := alloc (f_mem st1) (repeat 0 slabsz) in
             (mkSlice id 0 slabsz, mkF m' (f_left st1) (f_items st1))
        else (slab1, st1) in
      feed_loop fuel bufsz slabsz d trimCR (skipn n rest) cuts' slab2 st2
    end
  end.

(* Reader.feed: returns the final memory and the slices pushed, in push order *)
Definition feed (bufsz slabsz : nat) (d : Z) (trimCR : bool) (s : str) (cuts : list nat)
  : res (mem * list slice) :=
  let m0 := [repeat 0 slabsz] in
  do st <- feed_loop (S (length s)) bufsz slabsz d trimCR s cuts
                     (mkSlice 0 0 slabsz) (mkF m0 [] []);
  match f_left st with
  | [] => Ok (f_mem st, rev_append (f_items st) [])
  | l => let '(m', id) := alloc (f_mem st) l in
         Ok (m', rev_append (mkSlice id 0 (length l) :: f_items st) [])
  end.

Fixpoint deref_all (m : mem) (sls : list slice) : res (list str) :=
  match sls with
  | [] => Ok []
  | sl :: r => do v <- deref m sl; do vs <- deref_all m r; Ok (v :: vs)
  end.

(* contents of every pushed item, read back after the whole stream *)
Definition feed_records (bufsz slabsz : nat) (d : Z) (trimCR : bool) (s : str) (cuts : list nat)
  : res (list str) :=
  do r <- feed bufsz slabsz d trimCR s cuts;
  deref_all (fst r) (snd r).

(* the cut lists of the domain: fewer than 100 consecutive (0,nil) reads *)
Fixpoint zrun_ok (k run : nat) (cuts : list nat) : bool :=
  match cuts with
  | [] => true
  | c :: r => if (c =? 0)%nat then (S run <? k)%nat && zrun_ok k (S run) r else zrun_ok k 0 r
  end.
