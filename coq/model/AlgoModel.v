(* Model of src/algo/algo.go.  Structured like the code: same phases, same scans; loops over an
   index become recursion over the remaining text.  Every slice/index access is checked (Err), and a
   read of a scratch cell that was not written in the current call is an error too (Err Stale):
   a model run that succeeds therefore never depended on stale slab contents.
   Scores use unbounded Z (int16 overflow is covered separately: no_overflow theorem / finding K3). *)
From Fzf Require Import Prelude AlgoSpec.
Open Scope Z_scope.

Inductive mres := NoMatch | Match (s e : nat) (score : Z) (pos : option (list nat)).

Section Model.
Variable co : char_ops.
Variable sc : scheme.

Notation class_of := (class_of co sc).
Notation bonus_for := (bonus_for sc).
Notation lower1 := (lower1 co).

(* bonusMatrix[prev][cur] *)
Definition bonus_m (prev cur : Z) : Z := bonus_for prev cur.

(* the folding used by V1 / exact family / calculateScore *)
Definition foldm (cs nm : bool) (c : Z) : Z :=
  let c := if cs then c else lower1 c in
  if nm then co_norm co c else c.

(* bonusAt(text, idx) *)
Definition bonus_at_m (text : list Z) (idx : nat) : res Z :=
  match idx with
  | O => Ok (s_bw sc)
  | S j => do a <- get text j; do b <- get text idx; Ok (bonus_m (class_of a) (class_of b))
  end.

(* ---------- asciiFuzzyIndex ---------- *)

Fixpoint index_byte (l : list Z) (b : Z) : option nat :=
  match l with
  | [] => None
  | c :: r => if c =? b then Some O else match index_byte r b with Some i => Some (S i) | None => None end
  end.

(* trySkip(input, caseSensitive, b, from) : -1 is None *)
Definition try_skip (text : list Z) (cs : bool) (b : Z) (from : nat) : res (option nat) :=
  if Nat.ltb (length text) from then Err OutOfRange else
  let arr := skipn from text in
  let idx := index_byte arr b in
  match idx with
  | Some O => Ok (Some from)
  | _ =>
    let idx :=
      if negb cs && (97 <=? b) && (b <=? 122) then
        let arr' := match idx with Some i => firstn i arr | None => arr end in
        match index_byte arr' (b - 32) with Some u => Some u | None => idx end
      else idx in
    match idx with None => Ok None | Some i => Ok (Some (from + i)%nat) end
  end.

Definition is_ascii (p : list Z) : bool := forallb (fun r => r <? 128) p.

(* the pattern loop of asciiFuzzyIndex: returns (firstIdx, lastIdx, last byte) *)
Fixpoint afi_loop (text : list Z) (cs : bool) (pat : list Z) (first : bool) (idx firstIdx lastIdx : nat) (b : Z)
  : res (option (nat * nat * Z)) :=
  match pat with
  | [] => Ok (Some (firstIdx, lastIdx, b))
  | p :: pat' =>
      do r <- try_skip text cs p idx;
      match r with
      | None => Ok None
      | Some i =>
          let firstIdx := if first && Nat.ltb 0 i then (i - 1)%nat else firstIdx in
          afi_loop text cs pat' false (S i) firstIdx i p
      end
  end.

(* last offset > 0 in scope with scope[offset] = b or bu *)
Fixpoint last_occ (scope : list Z) (b bu : Z) (off : nat) (best : option nat) : option nat :=
  match scope with
  | [] => best
  | c :: r => last_occ r b bu (S off) (if Nat.ltb 0 off && ((c =? b) || (c =? bu)) then Some off else best)
  end.

Definition ascii_fuzzy_index (is_bytes : bool) (text pat : list Z) (cs : bool) : res (option (nat * nat)) :=
  if negb is_bytes then Ok (Some (O, length text))
  else if negb (is_ascii pat) then Ok None
  else
    do r <- afi_loop text cs pat true O O O 0;
    match r with
    | None => Ok None
    | Some (firstIdx, lastIdx, b) =>
        let bu := if negb cs && (97 <=? b) && (b <=? 122) then b - 32 else b in
        match last_occ (skipn lastIdx text) b bu O None with
        | Some off => Ok (Some (firstIdx, (lastIdx + off + 1)%nat))
        | None => Ok (Some (firstIdx, (lastIdx + 1)%nat))
        end
    end.

(* ---------- calculateScore ---------- *)

(* loop idx = sidx .. eidx-1 over [t] = text[sidx:eidx]; pattern[pidx] out of range is a panic *)
Fixpoint calc_loop (cs nm : bool) (t : list Z) (idx : nat) (pat : list Z) (prevClass : Z)
         (score : Z) (inGap : bool) (consecutive : nat) (firstBonus : Z) (first : bool) (pos : list nat)
  : res (Z * list nat) :=
  match t with
  | [] => Ok (score, rev pos)
  | c :: t' =>
      let class := class_of c in
      let ch := foldm cs nm c in
      match pat with
      | [] => Err OutOfRange
      | p :: pat' =>
          if ch =? p then
            let bonus := bonus_m prevClass class in
            let firstBonus' := if Nat.eqb consecutive 0 then bonus
                               else if (bonusBoundary <=? bonus) && (firstBonus <? bonus) then bonus else firstBonus in
            let bonus' := if Nat.eqb consecutive 0 then bonus
                          else Z.max (Z.max bonus firstBonus') bonusConsecutive in
            let score := score + scoreMatch + (if first then bonus' * 2 else bonus') in
            calc_loop cs nm t' (S idx) pat' class score false (S consecutive) firstBonus' false (idx :: pos)
          else
            let score := score + (if inGap then scoreGapExt else scoreGapStart) in
            calc_loop cs nm t' (S idx) pat class score true O 0 first pos
      end
  end.

Definition calculate_score (cs nm : bool) (text pat : list Z) (sidx eidx : nat) : res (Z * list nat) :=
  if Nat.ltb (length text) eidx then Err OutOfRange else
  do prevClass <- (match sidx with O => Ok (s_init sc) | S j => do a <- get text j; Ok (class_of a) end);
  calc_loop cs nm (firstn (eidx - sidx) (skipn sidx text)) sidx pat prevClass 0 false O 0 true [].

(* ---------- FuzzyMatchV1 ---------- *)

(* forward scan: index of the first matched char and index+1 of the char completing the pattern *)
Fixpoint v1_scan (cs nm : bool) (t : list Z) (index : nat) (pat : list Z) (sidx : option nat) : option (nat * nat) :=
  match pat with
  | [] => None
  | p :: pat' =>
    match t with
    | [] => None
    | c :: t' =>
        if foldm cs nm c =? p then
          let sidx := match sidx with None => Some index | s => s end in
          match pat' with
          | [] => match sidx with Some s => Some (s, S index) | None => None end
          | _ => v1_scan cs nm t' (S index) pat' sidx
          end
        else v1_scan cs nm t' (S index) pat sidx
    end
  end.

(* backward pass over t[sidx..eidx-1] from the end, matching the reversed pattern; returns new sidx.
   [rt] is rev (t[sidx:eidx]) and [rp] the reversed pattern; index counts down from eidx-1. *)
Fixpoint v1_back (cs nm : bool) (rt : list Z) (index : nat) (rp : list Z) (sidx : nat) : nat :=
  match rt with
  | [] => sidx
  | c :: rt' =>
      match rp with
      | [] => sidx
      | p :: rp' =>
          if foldm cs nm c =? p then
            match rp' with
            | [] => index
            | _ => v1_back cs nm rt' (index - 1) rp' sidx
            end
          else v1_back cs nm rt' (index - 1) rp sidx
      end
  end.

Definition fuzzy_v1 (cs nm fwd is_bytes : bool) (text pat : list Z) (withPos : bool) : res mres :=
  match pat with
  | [] => Ok (Match O O 0 None)
  | _ =>
    do afi <- ascii_fuzzy_index is_bytes text pat cs;
    match afi with
    | None => Ok NoMatch
    | Some _ =>
      let n := length text in
      let t := if fwd then text else rev text in
      let p := if fwd then pat else rev pat in
      match v1_scan cs nm t O p None with
      | None => Ok NoMatch
      | Some (sidx, eidx) =>
          let sidx := v1_back cs nm (rev (firstn (eidx - sidx) (skipn sidx t))) (eidx - 1) (rev p) sidx in
          let '(sidx, eidx) := if fwd then (sidx, eidx) else ((n - eidx)%nat, (n - sidx)%nat) in
          do sp <- calculate_score cs nm text pat sidx eidx;
          Ok (Match sidx eidx (fst sp) (if withPos then Some (snd sp) else None))
      end
    end
  end.

(* ---------- exactMatchNaive (ExactMatchNaive / ExactMatchBoundary) ---------- *)

(* One step of the main loop is modelled with explicit loop variables; [fuel] bounds the number of
   iterations (the loop re-visits positions after a failed partial match: at most n*(m+1) steps). *)
Record ex_state := mkEx { ex_index : Z; ex_pidx : nat; ex_bonus : Z; ex_bestPos : Z; ex_bestBonus : Z }.

Definition index_at (index max : nat) (fwd : bool) : nat := if fwd then index else (max - index - 1)%nat.

Fixpoint exact_loop (fuel : nat) (cs nm fwd boundary : bool) (text pat : list Z) (st : ex_state) : res ex_state :=
  match fuel with
  | O => Err OutOfFuel
  | S fuel' =>
    let n := length text in
    let m := length pat in
    if Z.of_nat n <=? ex_index st then Ok st else
    if ex_index st <? 0 then Err OutOfRange else
    let index := Z.to_nat (ex_index st) in
    let index_ := index_at index n fwd in
    do c <- get text index_;
    let ch := foldm cs nm c in
    let pidx_ := index_at (ex_pidx st) m fwd in
    do pchar <- get pat pidx_;
    let ok0 := pchar =? ch in
    do bonus <- (if ok0 && Nat.eqb pidx_ 0 then bonus_at_m text index_ else Ok (ex_bonus st));
    do ok <- (if ok0 && boundary then
                let ok := negb (Nat.eqb pidx_ 0) || (bonusBoundary <=? bonus) in
                do ok <- (if ok && Nat.eqb pidx_ 0 then
                            (if Nat.eqb index_ 0 then Ok true
                             else do a <- get text (index_ - 1); Ok (class_of a <=? cDelim))
                          else Ok ok);
                (if ok && Nat.eqb pidx_ (m - 1) then
                   (if Nat.eqb index_ (n - 1) then Ok true
                    else do a <- get text (index_ + 1); Ok (class_of a <=? cDelim))
                 else Ok ok)
              else Ok ok0);
    if ok then
      let pidx := S (ex_pidx st) in
      if Nat.eqb pidx m then
        let '(bestPos, bestBonus) := if ex_bestBonus st <? bonus then (ex_index st, bonus) else (ex_bestPos st, ex_bestBonus st) in
        if bonusBoundary <=? bonus then Ok (mkEx (ex_index st) pidx bonus bestPos bestBonus)   (* break *)
        else exact_loop fuel' cs nm fwd boundary text pat
               (mkEx (ex_index st - (Z.of_nat pidx - 1) + 1) O 0 bestPos bestBonus)
      else exact_loop fuel' cs nm fwd boundary text pat (mkEx (ex_index st + 1) pidx bonus (ex_bestPos st) (ex_bestBonus st))
    else
      exact_loop fuel' cs nm fwd boundary text pat
        (mkEx (ex_index st - Z.of_nat (ex_pidx st) + 1) O 0 (ex_bestPos st) (ex_bestBonus st))
  end.

Definition exact_match (cs nm fwd boundary is_bytes : bool) (text pat : list Z) : res mres :=
  match pat with
  | [] => Ok (Match O O 0 None)
  | _ =>
    let n := length text in
    let m := length pat in
    if Nat.ltb n m then Ok NoMatch else
    do afi <- ascii_fuzzy_index is_bytes text pat cs;
    match afi with
    | None => Ok NoMatch
    | Some _ =>
      do st <- exact_loop (S (n * (S m))) cs nm fwd boundary text pat (mkEx 0 O 0 (-1) (-1));
      if 0 <=? ex_bestPos st then
        let bestPos := Z.to_nat (ex_bestPos st) in
        let '(sidx, eidx) := if fwd then ((bestPos + 1 - m)%nat, (bestPos + 1)%nat)
                             else ((n - (bestPos + 1))%nat, (n - (bestPos + 1 - m))%nat) in
        if boundary then
          let bonus := ex_bonus st in
          let deduct := bonus - bonusBoundary + 1 in
          do u1 <- (if Nat.ltb 0 sidx then do a <- get text (sidx - 1); Ok (a =? 95) else Ok false);
          let score := if u1 then bonus - (deduct + 1) else bonus in
          let deduct := if u1 then 1 else deduct in
          do u2 <- (if Nat.ltb eidx n then do a <- get text eidx; Ok (a =? 95) else Ok false);
          let score := if u2 then score - deduct else score in
          Ok (Match sidx eidx (score + scoreMatch * Z.of_nat m + s_bw sc * (Z.of_nat m + 1)) None)
        else
          do sp <- calculate_score cs nm text pat sidx eidx;
          Ok (Match sidx eidx (fst sp) None)
      else Ok NoMatch
    end
  end.

(* ---------- PrefixMatch / SuffixMatch / EqualMatch ---------- *)

Definition is_space_m (c : Z) : bool := is_space co c.
Definition leading_ws (text : list Z) : nat := count_while is_space_m text.
Definition trailing_ws (text : list Z) : nat := count_while is_space_m (rev text).

(* unicode.ToLower then normalizeRune, as Prefix/Suffix do it *)
Fixpoint cmp_at (cs nm : bool) (text : list Z) (off : nat) (pat : list Z) : res bool :=
  match pat with
  | [] => Ok true
  | p :: pat' =>
      do c <- get text off;
      if foldm cs nm c =? p then cmp_at cs nm text (S off) pat' else Ok false
  end.

Definition prefix_match (cs nm : bool) (text pat : list Z) : res mres :=
  match pat with
  | [] => Ok (Match O O 0 None)
  | p0 :: _ =>
    let tl := if is_space_m p0 then O else leading_ws text in
    if Nat.ltb (length text - tl) (length pat) then Ok NoMatch else
    do ok <- cmp_at cs nm text tl pat;
    if ok then
      do sp <- calculate_score cs nm text pat tl (tl + length pat);
      Ok (Match tl (tl + length pat) (fst sp) None)
    else Ok NoMatch
  end.

Definition suffix_match (cs nm : bool) (text pat : list Z) : res mres :=
  let n := length text in
  let keep := match rev pat with [] => false | pl :: _ => is_space_m pl end in
  let tl := if keep then n else (n - trailing_ws text)%nat in
  match pat with
  | [] => Ok (Match tl tl 0 None)
  | _ =>
    if Nat.ltb tl (length pat) then Ok NoMatch else
    let diff := (tl - length pat)%nat in
    do ok <- cmp_at cs nm text diff pat;
    if ok then
      do sp <- calculate_score cs nm text pat diff tl;
      Ok (Match diff tl (fst sp) None)
    else Ok NoMatch
  end.

(* EqualMatch: normalize path compares normalizeRune(pchar) with normalizeRune(lower(char));
   the other path compares strings.ToLower(text[...]) with the pattern *)
Fixpoint eq_norm (cs : bool) (text : list Z) (off : nat) (pat : list Z) : res bool :=
  match pat with
  | [] => Ok true
  | p :: pat' =>
      do c <- get text off;
      let c := if cs then c else lower1 c in
      if co_norm co p =? co_norm co c then eq_norm cs text (S off) pat' else Ok false
  end.

Definition equal_match (cs nm : bool) (text pat : list Z) : res mres :=
  match pat with
  | [] => Ok NoMatch
  | p0 :: _ =>
    let m := length pat in
    let tl := if is_space_m p0 then O else leading_ws text in
    let te := match rev pat with [] => O | pl :: _ => if is_space_m pl then O else trailing_ws text end in
    if negb (Z.of_nat (length text) - Z.of_nat tl - Z.of_nat te =? Z.of_nat m) then Ok NoMatch else
    do ok <- (if nm then eq_norm cs text tl pat else cmp_at cs false text tl pat);
    if ok then Ok (Match tl (tl + m) ((scoreMatch + s_bw sc) * Z.of_nat m + s_bw sc) None)
    else Ok NoMatch
  end.

(* ---------- FuzzyMatchV2 ---------- *)

(* Phase 2 fold of one window character (ASCII: class-based; non-ASCII: unicode lower-casing, then
   normalisation) together with its class. *)
Definition fold_v2 (cs nm : bool) (c : Z) : Z * Z :=   (* (class, folded char) *)
  if c <=? 127 then
    let class := ascii_class sc c in
    (class, if negb cs && (class =? cUpper) then c + 32 else c)
  else
    let class := co_class co c in
    let c := if negb cs then co_lower co c else c in
    (class, if nm then co_norm co c else c).

Record p2 := mkP2 {
  p2_T : list Z;          (* folded window, reversed while scanning *)
  p2_B : list Z;          (* bonus per position *)
  p2_H0 : list Z; p2_C0 : list Z;
  p2_F : list nat;        (* first occurrences, reversed while scanning *)
  p2_pidx : nat; p2_lastIdx : nat;
  p2_maxScore : Z; p2_maxPos : nat
}.

(* scans the window; [rest] = pattern[pidx:] ; pchar = head rest, or the last pattern char when exhausted *)
Fixpoint phase2 (cs nm fwd : bool) (m1 : bool) (w : list Z) (off : nat) (p0 : Z) (rest : list Z) (plast : Z)
         (prevH0 : Z) (prevClass : Z) (inGap : bool) (st : p2) : p2 :=
  match w with
  | [] => st
  | c0 :: w' =>
      let '(class, c) := fold_v2 cs nm c0 in
      let bonus := bonus_m prevClass class in
      let pchar := match rest with p :: _ => p | [] => plast end in
      let hit := c =? pchar in
      let F' := if hit then match rest with _ :: _ => off :: p2_F st | [] => p2_F st end else p2_F st in
      let pidx' := if hit then match rest with _ :: _ => S (p2_pidx st) | [] => p2_pidx st end else p2_pidx st in
      let rest' := if hit then match rest with _ :: r => r | [] => [] end else rest in
      let lastIdx' := if hit then off else p2_lastIdx st in
      if c =? p0 then
        let score := scoreMatch + bonus * 2 in
        let better := m1 && (if fwd then p2_maxScore st <? score else p2_maxScore st <=? score) in
        let st' := mkP2 (c :: p2_T st) (bonus :: p2_B st) (score :: p2_H0 st) (1 :: p2_C0 st) F' pidx' lastIdx'
                        (if better then score else p2_maxScore st) (if better then off else p2_maxPos st) in
        if better && fwd && (bonusBoundary <=? bonus) then st'      (* break *)
        else phase2 cs nm fwd m1 w' (S off) p0 rest' plast score class false st'
      else
        let h := Z.max (prevH0 + (if inGap then scoreGapExt else scoreGapStart)) 0 in
        let st' := mkP2 (c :: p2_T st) (bonus :: p2_B st) (h :: p2_H0 st) (0 :: p2_C0 st) F' pidx' lastIdx'
                        (p2_maxScore st) (p2_maxPos st) in
        phase2 cs nm fwd m1 w' (S off) p0 rest' plast h class true st'
  end.

(* scratch matrices H and C: M rows of [width] cells addressed by flat index like the code;
   None = not written in this call.  A read of None is Err (stale read). *)
Definition mat := list (option Z).
Definition mget (m : mat) (i : Z) : res Z :=
  if i <? 0 then Err OutOfRange else
  match get m (Z.to_nat i) with
  | Ok (Some v) => Ok v
  | Ok None => Err Panic          (* stale read *)
  | Err e => Err e
  end.
Definition mset (m : mat) (i : Z) (v : Z) : res mat :=
  if i <? 0 then Err OutOfRange else set_nth m (Z.to_nat i) (Some v).

Definition zget (l : list Z) (i : Z) : res Z := if i <? 0 then Err OutOfRange else get l (Z.to_nat i).

(* inner loop of phase 3 for one row: columns col = f .. lastIdx *)
Fixpoint p3_row (fwd lastrow : bool) (T B : list Z) (H C : mat) (row width f0 : Z) (pchar : Z)
         (n : nat) (col : Z) (inGap : bool) (maxScore : Z) (maxPos : Z) : res (mat * mat * Z * Z) :=
  match n with
  | O => Ok (H, C, maxScore, maxPos)
  | S n' =>
      let j0 := col - f0 in
      do hleft <- mget H (row + j0 - 1);
      let s2 := hleft + (if inGap then scoreGapExt else scoreGapStart) in
      do ch <- zget T col;
      do r <- (if pchar =? ch then
                 do hdiag <- mget H (row + j0 - 1 - width);
                 do cdiag <- mget C (row + j0 - 1 - width);
                 do b0 <- zget B col;
                 let s1 := hdiag + scoreMatch in
                 let cn := cdiag + 1 in
                 do bc <- (if 1 <? cn then
                             do fb <- zget B (col - cn + 1);
                             if (bonusBoundary <=? b0) && (fb <? b0) then Ok (b0, 1)
                             else Ok (Z.max b0 (Z.max bonusConsecutive fb), cn)
                           else Ok (b0, cn));
                 if s1 + fst bc <? s2 then Ok (s1 + b0, 0) else Ok (s1 + fst bc, snd bc)
               else Ok (0, 0));
      let s1 := fst r in
      do C' <- mset C (row + j0) (snd r);
      let score := Z.max (Z.max s1 s2) 0 in
      let better := lastrow && (if fwd then maxScore <? score else maxScore <=? score) in
      do H' <- mset H (row + j0) score;
      p3_row fwd lastrow T B H' C' row width f0 pchar n' (col + 1) (s1 <? s2)
             (if better then score else maxScore) (if better then col else maxPos)
  end.

(* rows pidx = 1 .. M-1 *)
Fixpoint p3_rows (fwd : bool) (T B : list Z) (H C : mat) (width f0 lastIdx : Z) (M : nat)
         (Fsub : list nat) (Psub : list Z) (pidx : nat) (maxScore maxPos : Z) : res (mat * mat * Z * Z) :=
  match Fsub, Psub with
  | f :: Fsub', pchar :: Psub' =>
      let f := Z.of_nat f in
      let row := Z.of_nat pidx * width in
      do H1 <- mset H (row + f - f0 - 1) 0;                      (* Hleft[0] = 0 *)
      do r <- p3_row fwd (Nat.eqb pidx (M - 1)) T B H1 C row width f0 pchar
                     (Z.to_nat (lastIdx + 1 - f)) f false maxScore maxPos;
      let '(H2, C2, ms, mp) := r in
      p3_rows fwd T B H2 C2 width f0 lastIdx M Fsub' Psub' (S pidx) ms mp
  | _, _ => Ok (H, C, maxScore, maxPos)
  end.

(* Phase 4 back-trace. fuel = number of loop iterations allowed (j decreases every iteration). *)
Fixpoint p4 (fuel : nat) (H C : mat) (F : list nat) (width f0 : Z) (M : nat) (minIdx : nat)
         (i : nat) (j : Z) (preferMatch : bool) (pos : list nat) : res (list nat * Z) :=
  match fuel with
  | O => Err OutOfFuel
  | S fuel' =>
      let I := Z.of_nat i * width in
      let j0 := j - f0 in
      do s <- mget H (I + j0);
      do Fi <- get F i;
      let Fi := Z.of_nat Fi in
      do s1 <- (if Nat.ltb 0 i && (Fi <=? j) then mget H (I - width + j0 - 1) else Ok 0);
      do s2 <- (if Fi <? j then mget H (I + j0 - 1) else Ok 0);
      let take := (s1 <? s) && ((s2 <? s) || ((s =? s2) && preferMatch)) in
      let pos' := if take then (Z.to_nat (j + Z.of_nat minIdx)) :: pos else pos in
      if take && Nat.eqb i 0 then (if j + Z.of_nat minIdx <? 0 then Err OutOfRange else Ok (pos', j))
      else
        let i' := if take then (i - 1)%nat else i in
        do c1 <- mget C (I + j0);
        do pm <- (if 1 <? c1 then Ok true
                  else if I + width + j0 + 1 <? Z.of_nat (length C) then
                    do Fn <- get F (Z.to_nat (I / width) + 1);
                    if Z.of_nat Fn <=? j + 1 then
                      do c2 <- mget C (I + width + j0 + 1); Ok (0 <? c2)
                    else Ok false
                  else Ok false);
        p4 fuel' H C F width f0 M minIdx i' (j - 1) pm pos'
  end.

Fixpoint put_row (m : mat) (off : Z) (vals : list Z) : res mat :=
  match vals with
  | [] => Ok m
  | v :: r => do m' <- mset m off v; put_row m' (off + 1) r
  end.

(* slabCap = Some cap when a slab is given (N*M > cap => V1 fallback), None for a nil slab *)
Definition fuzzy_v2 (cs nm fwd is_bytes : bool) (text pat : list Z) (withPos : bool) (slabCap : option Z) : res mres :=
  let M := length pat in
  match pat with
  | [] => Ok (Match O O 0 (if withPos then Some [] else None))
  | p0 :: _ =>
    let N := length text in
    if Nat.ltb N M then Ok NoMatch else
    if (match slabCap with Some cap => cap <? Z.of_nat N * Z.of_nat M | None => false end)
    then fuzzy_v1 cs nm fwd is_bytes text pat withPos else
    do afi <- ascii_fuzzy_index is_bytes text pat cs;
    match afi with
    | None => Ok NoMatch
    | Some (minIdx, maxIdx) =>
      if Nat.ltb maxIdx minIdx || Nat.ltb N maxIdx then Err OutOfRange else
      let w := firstn (maxIdx - minIdx) (skipn minIdx text) in
      let plast := last pat 0 in
      let st := phase2 cs nm fwd (Nat.eqb M 1) w O p0 pat plast 0 (s_init sc) false
                       (mkP2 [] [] [] [] [] O O 0 O) in
      if negb (Nat.eqb (p2_pidx st) M) then Ok NoMatch else
      if Nat.eqb M 1 then
        let r := (minIdx + p2_maxPos st)%nat in
        Ok (Match r (S r) (p2_maxScore st) (if withPos then Some [r] else None))
      else
        let T := rev (p2_T st) in let B := rev (p2_B st) in
        let H0 := rev (p2_H0 st) in let C0 := rev (p2_C0 st) in
        let F := rev (p2_F st) in
        do f0n <- get F O;
        let f0 := Z.of_nat f0n in
        let lastIdx := Z.of_nat (p2_lastIdx st) in
        let width := lastIdx - f0 + 1 in
        if width <=? 0 then Err OutOfRange else
        let cells := Z.to_nat (width * Z.of_nat M) in
        let blank : mat := repeat None cells in
        let seg (l : list Z) := firstn (Z.to_nat width) (skipn f0n l) in
        if Nat.ltb (length H0) (Z.to_nat (lastIdx + 1)) then Err OutOfRange else
        do H <- put_row blank 0 (seg H0);
        do C <- put_row blank 0 (seg C0);
        do r <- p3_rows fwd T B H C width f0 lastIdx M (tl F) (tl pat) 1 (p2_maxScore st) (Z.of_nat (p2_maxPos st));
        let '(H, C, maxScore, maxPos) := r in
        if maxPos <? 0 then Err OutOfRange else
        if withPos then
          do pj <- p4 (S (Z.to_nat maxPos)) H C F width f0 M minIdx (M - 1) maxPos true [];
          Ok (Match (Z.to_nat (Z.of_nat minIdx + snd pj)) (minIdx + Z.to_nat maxPos + 1) maxScore (Some (rev (fst pj))))
        else
          Ok (Match (minIdx + f0n) (minIdx + Z.to_nat maxPos + 1) maxScore None)
    end
  end.

End Model.
