(* Executable restatement of terminal.go for the search string: Terminal.inputOverride.
     doAction:  currentInput := t.input (text before THIS action) ... the action runs ...
                actSearch / actTransformSearch: t.inputOverride = &override
                after every action:  if string(t.input) != string(currentInput) { t.inputOverride = nil }
     Input():   src := t.input; if t.inputOverride != nil { src = *t.inputOverride }   (and paused = false)
   (the --no-input branch, which discards the change of the line, is not modelled). *)
From Fzf Require Import Prelude SearchStrSpec.
Open Scope Z_scope.

Record tq := mkTq { tq_input : str; tq_over : option str }.

Definition tq_action (s : tq) (a : qact) : tq :=
  match a with
  | QSearch x => mkTq (tq_input s) (Some x)
  | QEdit n => mkTq n (if str_eqb (tq_input s) n then tq_over s else None)
  end.

Definition tq_run (s : tq) (h : list qact) : tq := fold_left tq_action h s.

(* Terminal.Input() *)
Definition tq_Input (s : tq) : str := match tq_over s with Some x => x | None => tq_input s end.
