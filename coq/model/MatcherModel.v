(* C13/C08 model of src/matcher.go (+ Pattern.Match of src/pattern.go, the part that
   talks to the ChunkCache).

   Matching one item is a parameter (`matchf`, see spec/SearchSpec.v).  A chunk in a
   request is (id, items): the id is what the ChunkCache is keyed by (the *Chunk pointer),
   the items are what the snapshot dereferences to (ChunkStoreProofs.snapshot_immutable is
   what allows a request to carry them by value).

   * pattern_match  : Pattern.Match  (Lookup / Search / matchChunk / Add)
   * scan           : Matcher.scan as a labelled transition system; a schedule is a list
                      of labels: a worker matches its next chunk, the main goroutine
                      receives a count (and peeks at reqReset), somebody posts a request.
   * loop_iter      : one iteration of Matcher.Loop: take a request out of the two-slot
                      mailbox, sort/revision change => mergerCache dropped, prevCount,
                      mergerCache lookup, scan, publish unless cancelled.
   Three defects of this code were repaired while the verification was built; the model carries
   a `rules` record selecting, for each, the repaired or the former behaviour (the former ones are
   kept as regression witnesses only, see Properties/C13.v):
     rule_prev : prevCount updated on every request          (e15c39a; before: only when it differed)
     rule_seq  : Loop takes the pending request with the largest sequence number
                                                              (afab7e8; before: Go map order decided)
     rule_gen  : Pattern.Match adds to the ChunkCache only while the cache generation is the one
                 the pattern was built under                  (2b9f419; before: unconditional Add) *)
From Fzf Require Import Prelude SearchSpec ChunkStoreModel CacheModel.
Open Scope Z_scope.

Definition merger_cache_max : Z := 100000.      (* constants.go: mergerCacheMax *)

Definition revision := (Z * Z)%type.               (* major, minor *)
Definition rev_eqb (a b : revision) : bool := (fst a =? fst b) && (snd a =? snd b).

Record rules := mkRules { rule_prev : bool; rule_seq : bool; rule_gen : bool }.
Definition rules_fixed : rules := mkRules true true true.

(* everything the matcher is parameterised by: how one item is matched (the algorithm layer),
   the strings and flags a Pattern carries, the matcher's construction-time settings *)
Record penv (item pat : Type) := mkEnv {
  e_idx : item -> Z;                          (* Item.Index() *)
  e_matchf : pat -> item -> option Z;         (* Pattern.MatchItem: Some rank-key when it matches *)
  e_pkey : pat -> str;                        (* Pattern.AsString(): key of mergerCache *)
  e_ckey : pat -> str;                        (* Pattern.CacheKey(): key of the ChunkCache *)
  e_pgen : pat -> nat;                        (* Pattern.cacheGen *)
  e_cacheable : pat -> bool;
  e_sortable : pat -> bool;
  e_empty : pat -> bool;                      (* Pattern.IsEmpty() *)
  e_rules : rules;
  e_tac : bool;                               (* Matcher.tac *)
  e_parts : nat                               (* Matcher.partitions, >= 1 *)
}.
Arguments mkEnv {item pat}.
Arguments e_idx {item pat} p. Arguments e_matchf {item pat} p. Arguments e_pkey {item pat} p.
Arguments e_ckey {item pat} p. Arguments e_pgen {item pat} p. Arguments e_cacheable {item pat} p.
Arguments e_sortable {item pat} p. Arguments e_empty {item pat} p. Arguments e_rules {item pat} p.
Arguments e_tac {item pat} p. Arguments e_parts {item pat} p.

Section Matcher.
  Context {item pat : Type}.
  Variable E : penv item pat.
  Local Notation idx := (e_idx E).
  Local Notation matchf := (e_matchf E).
  Local Notation pkey := (e_pkey E).
  Local Notation ckey := (e_ckey E).
  Local Notation pgen := (e_pgen E).
  Local Notation pcacheable := (e_cacheable E).
  Local Notation psortable := (e_sortable E).
  Local Notation pempty := (e_empty E).
  Local Notation rl := (e_rules E).
  Local Notation tac := (e_tac E).
  Local Notation partitions := (e_parts E).

  Definition result := (item * Z)%type.
  Definition chunk := (nat * list item)%type.
  Definition ccache := cache result.

  Record request := mkReq {
    r_chunks : list chunk; r_pat : pat; r_final : bool; r_sort : bool; r_rev : revision }.

  Inductive merger_body :=
  | MPass (chunks : list (list item))              (* PassMerger *)
  | MLists (lists : list (list result)) (sorted : bool).   (* NewMerger *)
  Record merger := mkMerger { mg_body : merger_body; mg_tac : bool; mg_final : bool; mg_rev : revision }.

  Definition merger_count (m : merger) : nat :=
    match mg_body m with
    | MPass cs => length (concat cs)
    | MLists ls _ => length (concat ls)
    end.
  Definition merger_cacheable (m : merger) : bool := Z.of_nat (merger_count m) <? merger_cache_max.
  Definition set_final (m : merger) (f : bool) : merger := mkMerger (mg_body m) (mg_tac m) f (mg_rev m).

  (* what Merger.Get(0..Length-1) enumerates (the k-way merge of sorted lists itself is C04's subject:
     here a sorted merger is read as the rank order of everything it holds) *)
  Definition merger_view (m : merger) : list item :=
    match mg_body m with
    | MPass cs => if mg_tac m then rev (concat cs) else concat cs
    | MLists ls true => map fst (rank_sort idx (mg_tac m) (concat ls))
    | MLists ls false => map fst (if mg_tac m then rev (concat ls) else concat ls)
    end.

  (* ---- Pattern.Match(chunk) ---- *)
  Definition match_items (p : pat) (xs : list item) : list result := matches_of matchf p xs.

  Definition pattern_match (c : ccache) (p : pat) (ch : chunk) : list result * ccache :=
    let (id, xs) := ch in
    let n := length xs in
    let key := ckey p in
    match (if pcacheable p then cache_lookup c n id key else None) with
    | Some l => (l, c)
    | None =>
        let ms := match cache_search c n id key with
                  | None => match_items p xs
                  | Some space => match_items p (map fst space)
                  end in
        (ms, if pcacheable p then cache_add_rule (rule_gen rl) (pgen p) c n id key ms else c)
    end.

  (* ---- sliceChunks ---- *)
  Fixpoint slice_go {A} (per k : nat) (cs : list A) : list (list A) :=
    match k with
    | O => []
    | S k' => match k' with
              | O => [cs]
              | S _ => firstn per cs :: slice_go per k' (skipn per cs)
              end
    end.
  Definition slice_chunks {A} (cs : list A) : list (list A) :=
    let per := Nat.div (length cs) partitions in
    if Nat.eqb per 0 then slice_go 1 (length cs) cs else slice_go per partitions cs.

  (* ---- two-slot mailbox (reqBox: one slot per event type) ----
     Reset stamps every request with the next value of Matcher.sequence *)
  Record box := mkBox { b_retry : option (nat * request); b_reset : option (nat * request); b_seq : nat }.
  Definition box_empty : box := mkBox None None 0.
  Definition box_clear (b : box) : box := mkBox None None (b_seq b).
  Definition box_post (b : box) (cancel : bool) (r : request) : box :=
    let n := S (b_seq b) in
    if cancel then mkBox (b_retry b) (Some (n, r)) n else mkBox (Some (n, r)) (b_reset b) n.
  (* Loop's Wait callback ranges over a Go map.  rule_seq: the larger sequence number wins.
     Before: the request visited LAST won and the other one was dropped; `pick_reset` is that
     (arbitrary) choice. *)
  Definition box_take (b : box) (pick_reset : bool) : option request :=
    match b_retry b, b_reset b with
    | None, None => None
    | Some (_, r), None => Some r
    | None, Some (_, r) => Some r
    | Some (n1, r1), Some (n2, r2) =>
        if rule_seq rl then Some (if Nat.ltb n1 n2 then r2 else r1)
        else Some (if pick_reset then r2 else r1)
    end.
  Definition box_has_reset (b : box) : bool := match b_reset b with Some _ => true | None => false end.
  Definition box_is_empty (b : box) : bool :=
    match b_retry b, b_reset b with None, None => true | _, _ => false end.

  (* ---- scan as a transition system ---- *)
  Inductive wstate := WRun | WDone (out : list result) | WAbort.
  Record worker := mkW { w_todo : list chunk; w_acc : list (list result); w_st : wstate }.
  Inductive phase :=
  | PRecv                       (* main: for matchesInChunk := range countChan *)
  | PCollect                    (* main: count == numChunks, draining resultChan *)
  | PCancel                     (* main: saw reqReset, cancelled.Set(true), waitGroup.Wait() *)
  | PRet (out : option (list (list result))).   (* returned: Some partial results / None = cancelled *)
  Record sstate := mkS {
    s_cache : ccache; s_ws : list worker; s_total : nat; s_sent : nat; s_recv : nat;
    s_cancelled : bool; s_box : box; s_phase : phase }.

  Inductive label :=
  | LWork (i : nat)             (* worker i: Match the next chunk, check cancelled, send the count *)
  | LRecv                       (* main receives one count *)
  | LCollect                    (* main receives every partial result and returns the merger *)
  | LJoin                       (* main, cancelled: all workers have returned *)
  | LPost (cancel : bool) (r : request)    (* Matcher.Reset from the coordinator *)
  | LInvalidate.                           (* ChunkCache.Invalidate from the coordinator (change-nth / exclude) *)

  Definition finish (sorted : bool) (acc : list (list result)) : list result :=
    let all := concat acc in
    if sorted then rank_sort idx tac all else all.

  Definition work (p : pat) (sorted : bool) (st : sstate) (i : nat) : sstate :=
    match get (s_ws st) i with
    | Err _ => st
    | Ok w =>
        match w_st w with
        | WRun =>
            match w_todo w with
            | [] =>
                match set_nth (s_ws st) i (mkW [] (w_acc w) (WDone (finish sorted (w_acc w)))) with
                | Ok ws => mkS (s_cache st) ws (s_total st) (s_sent st) (s_recv st) (s_cancelled st) (s_box st) (s_phase st)
                | Err _ => st
                end
            | ch :: rest =>
                let (ms, c') := pattern_match (s_cache st) p ch in
                if s_cancelled st then
                  match set_nth (s_ws st) i (mkW rest (w_acc w) WAbort) with
                  | Ok ws => mkS c' ws (s_total st) (s_sent st) (s_recv st) true (s_box st) (s_phase st)
                  | Err _ => st
                  end
                else
                  let acc := w_acc w ++ [ms] in
                  let w' := match rest with
                            | [] => mkW [] acc (WDone (finish sorted acc))
                            | _ => mkW rest acc WRun
                            end in
                  match set_nth (s_ws st) i w' with
                  | Ok ws => mkS c' ws (s_total st) (S (s_sent st)) (s_recv st) false (s_box st) (s_phase st)
                  | Err _ => st
                  end
            end
        | _ => st
        end
    end.

  Definition all_done (ws : list worker) : option (list (list result)) :=
    fold_right (fun w acc => match w_st w, acc with
                             | WDone out, Some l => Some (out :: l)
                             | _, _ => None
                             end) (Some []) ws.
  Definition none_running (ws : list worker) : bool :=
    forallb (fun w => match w_st w with WRun => false | _ => true end) ws.

  Definition sstep (p : pat) (sorted : bool) (st : sstate) (l : label) : sstate :=
    match l with
    | LWork i => work p sorted st i
    | LRecv =>
        match s_phase st with
        | PRecv =>
            if Nat.ltb (s_recv st) (s_sent st) then
              let n := S (s_recv st) in
              if Nat.eqb n (s_total st) then
                mkS (s_cache st) (s_ws st) (s_total st) (s_sent st) n (s_cancelled st) (s_box st) PCollect
              else if box_has_reset (s_box st) then
                mkS (s_cache st) (s_ws st) (s_total st) (s_sent st) n true (s_box st) PCancel
              else
                mkS (s_cache st) (s_ws st) (s_total st) (s_sent st) n (s_cancelled st) (s_box st) PRecv
            else st
        | _ => st
        end
    | LCollect =>
        match s_phase st with
        | PCollect =>
            match all_done (s_ws st) with
            | Some outs => mkS (s_cache st) (s_ws st) (s_total st) (s_sent st) (s_recv st) (s_cancelled st) (s_box st) (PRet (Some outs))
            | None => st
            end
        | _ => st
        end
    | LJoin =>
        match s_phase st with
        | PCancel =>
            if none_running (s_ws st) then
              mkS (s_cache st) (s_ws st) (s_total st) (s_sent st) (s_recv st) (s_cancelled st) (s_box st) (PRet None)
            else st
        | _ => st
        end
    | LPost cancel r =>
        mkS (s_cache st) (s_ws st) (s_total st) (s_sent st) (s_recv st) (s_cancelled st) (box_post (s_box st) cancel r) (s_phase st)
    | LInvalidate =>
        mkS (cache_invalidate (s_cache st)) (s_ws st) (s_total st) (s_sent st) (s_recv st) (s_cancelled st) (s_box st) (s_phase st)
    end.

  Definition srun (p : pat) (sorted : bool) (st : sstate) (sched : list label) : sstate :=
    fold_left (sstep p sorted) sched st.

  Definition sinit (c : ccache) (b : box) (chunks : list chunk) : sstate :=
    mkS c (map (fun cs => mkW cs [] WRun) (slice_chunks chunks)) (length chunks) 0 0 false b PRecv.

  (* a state in which nothing is scanned (cached / empty / pass merger): only posts have an effect *)
  Definition sidle (c : ccache) (b : box) : sstate := mkS c [] 0 0 0 false b (PRet (Some [])).

  (* a complete schedule without interference: every worker in turn, then the main goroutine *)
  Definition fair_sched (chunks : list chunk) : list label :=
    concat (map (fun ic => repeat (LWork (fst ic)) (S (length (snd ic))))
                (combine (seq 0 (length (slice_chunks chunks))) (slice_chunks chunks)))
    ++ repeat LRecv (length chunks) ++ [LCollect; LJoin].

  (* ---- Matcher.Loop ---- *)
  Record mstate := mkM {
    m_sort : bool; m_rev : revision; m_mcache : list (str * merger); m_prev : nat; m_cache : ccache }.
  Definition minit (sort : bool) (rev : revision) : mstate := mkM sort rev [] 0%nat cache_new.

  Fixpoint mc_find (mc : list (str * merger)) (k : str) : option merger :=
    match mc with
    | [] => None
    | (k', m) :: r => if str_eqb k' k then Some m else mc_find r k
    end.

  Definition req_count (r : request) : nat := count_items (map (fun c => length (snd c)) (r_chunks r)).
  Definition req_items (r : request) : list item := concat (map snd (r_chunks r)).

  (* the mergerCache bookkeeping at the head of an iteration: (cached merger to reuse, mergerCache, prevCount) *)
  Definition mc_decide (ms : mstate) (req : request) : option merger * list (str * merger) * nat :=
    let cleared := (negb (Bool.eqb (r_sort req) (m_sort ms)) || negb (rev_eqb (r_rev req) (m_rev ms)))%bool in
    let count := req_count req in
    if cleared then (None, [], if rule_prev rl then count else m_prev ms)
    else if Nat.eqb count (m_prev ms) then
      (match mc_find (m_mcache ms) (pkey (r_pat req)) with
       | Some m => if Bool.eqb (mg_final m) (r_final req) then Some m else None
       | None => None
       end, m_mcache ms, count)
    else (None, [], count).

  (* one iteration for the request `req` already taken out of the mailbox `b` (now empty);
     `b0` is that emptied mailbox (it keeps the sequence counter);
     returns the new matcher state, the mailbox as left by the posts that arrived meanwhile,
     and the published merger, if any *)
  Definition loop_body (ms : mstate) (b0 : box) (req : request) (sched : list label)
    : res (mstate * box * option merger) :=
    if Nat.eqb partitions 0 then Err BadInput else
    let sort := r_sort req in
    let rev := r_rev req in
    let p := r_pat req in
    let '(hit, mc1, prev1) := mc_decide ms req in
    let publish (c : ccache) (b : box) (m : merger) :=
      let m' := set_final m (r_final req) in
      let mc2 := if merger_cacheable m then (pkey p, m') :: mc1 else mc1 in
      Ok (mkM sort rev mc2 prev1 c, b, Some m') in
    match hit with
    | Some m =>
        let st := srun p false (sidle (m_cache ms) b0) sched in
        publish (s_cache st) (s_box st) m
    | None =>
        match r_chunks req with
        | [] =>
            let st := srun p false (sidle (m_cache ms) b0) sched in
            publish (s_cache st) (s_box st) (mkMerger (MLists [] false) false false rev)
        | _ =>
            if pempty p then
              let st := srun p false (sidle (m_cache ms) b0) sched in
              publish (s_cache st) (s_box st) (mkMerger (MPass (map snd (r_chunks req))) tac false rev)
            else
              let sorted := (sort && psortable p)%bool in
              let st := srun p sorted (sinit (m_cache ms) b0 (r_chunks req)) sched in
              match s_phase st with
              | PRet (Some outs) => publish (s_cache st) (s_box st) (mkMerger (MLists outs sorted) tac false rev)
              | PRet None => Ok (mkM sort rev mc1 prev1 (s_cache st), s_box st, None)
              | _ => Err BadInput      (* the schedule does not run the scan to its end *)
              end
        end
    end.

  Inductive event :=
  | EPost (cancel : bool) (r : request)             (* Reset while the loop is waiting *)
  | EInvalidate                                     (* ChunkCache.Invalidate while the loop is waiting *)
  | EIter (pick_reset : bool) (sched : list label). (* one iteration; sched = what happens during its scan *)

  (* l_pubs: every publication with the request it was made for, newest first.
     l_glast (ghost): the largest pattern generation served so far. *)
  Record lstate := mkL { l_m : mstate; l_box : box; l_pubs : list (request * merger); l_glast : nat }.
  Definition linit (sort : bool) (rev : revision) : lstate := mkL (minit sort rev) box_empty [] 0.

  Definition lstep (st : lstate) (e : event) : res lstate :=
    match e with
    | EPost cancel r => Ok (mkL (l_m st) (box_post (l_box st) cancel r) (l_pubs st) (l_glast st))
    | EInvalidate =>
        let ms := l_m st in
        Ok (mkL (mkM (m_sort ms) (m_rev ms) (m_mcache ms) (m_prev ms) (cache_invalidate (m_cache ms)))
                (l_box st) (l_pubs st) (l_glast st))
    | EIter pick sched =>
        match box_take (l_box st) pick with
        | None => Ok st                                 (* Wait blocks: nothing happens *)
        | Some req =>
            do x <- loop_body (l_m st) (box_clear (l_box st)) req sched;
            let '(ms, b, pub) := x in
            Ok (mkL ms b (match pub with Some m => (req, m) :: l_pubs st | None => l_pubs st end)
                    (Nat.max (l_glast st) (pgen (r_pat req))))
        end
    end.

  Fixpoint lrun (st : lstate) (es : list event) : res lstate :=
    match es with
    | [] => Ok st
    | e :: r => do st' <- lstep st e; lrun st' r
    end.

  (* the uncached, sequential reading of scan: what a merger for `req` must contain.
     It depends on the CONTENTS of the request's chunks only, not on their identities. *)
  Definition lists_spec (p : pat) (sorted : bool) (xss : list (list item)) : list (list result) :=
    map (fun part => finish sorted (map (match_items p) part)) (slice_chunks xss).

  Definition scan_spec (req : request) : merger :=
    let p := r_pat req in
    match map snd (r_chunks req) with
    | [] => mkMerger (MLists [] false) false false (r_rev req)
    | xss =>
        if pempty p then mkMerger (MPass xss) tac false (r_rev req)
        else
          let sorted := (r_sort req && psortable p)%bool in
          mkMerger (MLists (lists_spec p sorted xss) sorted) tac false (r_rev req)
    end.
End Matcher.
