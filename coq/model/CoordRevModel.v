(* C13 model: how core.go's event loop labels the snapshots it sends to the matcher with input revisions
   (Run: restart, EvtReadNew / EvtReadFin, EvtSearchNew).  Restated from the Go code, same structure.
   Only the MAJOR revision is modelled (bumped by restart = a reload); minor bumps (--tail trimming, exclude,
   change-nth) only ever make labels more distinct and are left out, so the model speaks about sessions without them.
   The chunk list is abstracted to (generation, length): restart clears it and starts the next generation, the reader
   appends.  `relabel` = true is the rule "the revision label is refreshed even when the old snapshot is kept"
   (not what core.go does; kept for the refuted witness). *)
From Fzf Require Import Prelude ReloadSpec.

Record cstate := mkC {
  c_gen : nat;            (* generation held by chunkList *)
  c_len : nat;            (* its length *)
  c_inrev : nat;          (* inputRevision.major *)
  c_snapgen : nat;        (* snapshot: taken from this generation ... *)
  c_snaplen : nat;        (* ... with this many items *)
  c_snaprev : nat;        (* snapshotRevision.major *)
  c_reading : bool;
  c_next : bool;          (* nextCommand != nil: a reload waits for the running loader to end *)
  c_usesnap : bool;       (* useSnapshot (reload-sync) *)
  c_posted : list sreq    (* matcher.Reset calls, newest first *)
}.

Definition c_init : cstate := mkC 0 0 0 0 0 0 true false false [].

Inductive cevent :=
| CPush                                   (* the reader appends one item *)
| CReadNew                                (* EvtReadNew *)
| CReadFin                                (* EvtReadFin *)
| CSearchNew (cmd : option bool) (changed : bool).   (* EvtSearchNew; cmd = Some sync: the request carries a reload command *)

Definition c_restart (s : cstate) : cstate :=
  mkC (S (c_gen s)) 0 (S (c_inrev s)) (c_snapgen s) (c_snaplen s) (c_snaprev s) true (c_next s) (c_usesnap s) (c_posted s).

Definition c_post (s : cstate) : cstate :=
  mkC (c_gen s) (c_len s) (c_inrev s) (c_snapgen s) (c_snaplen s) (c_snaprev s) (c_reading s) (c_next s) (c_usesnap s)
      (mkSreq (c_snapgen s) (c_snaplen s) (c_snaprev s) :: c_posted s).

Definition c_take (s : cstate) : cstate :=     (* snapshot = chunkList.Snapshot(); snapshotRevision = inputRevision *)
  mkC (c_gen s) (c_len s) (c_inrev s) (c_gen s) (c_len s) (c_inrev s) (c_reading s) (c_next s) (c_usesnap s) (c_posted s).

Definition c_label (s : cstate) : cstate :=    (* snapshotRevision = inputRevision, the snapshot stays *)
  mkC (c_gen s) (c_len s) (c_inrev s) (c_snapgen s) (c_snaplen s) (c_inrev s) (c_reading s) (c_next s) (c_usesnap s) (c_posted s).

Definition c_set (s : cstate) (reading next usesnap : bool) : cstate :=
  mkC (c_gen s) (c_len s) (c_inrev s) (c_snapgen s) (c_snaplen s) (c_snaprev s) reading next usesnap (c_posted s).

Definition c_step (relabel : bool) (s : cstate) (e : cevent) : cstate :=
  match e with
  | CPush =>
      if c_reading s
      then mkC (c_gen s) (S (c_len s)) (c_inrev s) (c_snapgen s) (c_snaplen s) (c_snaprev s) true (c_next s) (c_usesnap s) (c_posted s)
      else s
  | CReadNew =>
      c_post (if c_usesnap s then s else c_take s)
  | CReadFin =>
      if c_next s then c_restart (c_set s (c_reading s) false (c_usesnap s))
      else
        let s1 := c_set s false false false in     (* reading = false; reload-sync ends: useSnapshot = false *)
        c_post (c_take s1)
  | CSearchNew cmd changed =>
      let s1 := match cmd with
                | Some sync =>
                    let s0 := c_set s (c_reading s) (c_next s) sync in
                    if c_reading s0 then c_set s0 true true sync      (* reader.terminate(); nextCommand = command *)
                    else c_restart s0
                | None => s
                end in
      if negb changed then s1
      else
        let s2 := if c_usesnap s1 then s1
                  else match cmd with
                       | Some _ => if Nat.eqb (c_len s1) 0
                                   then (if relabel then c_label s1 else s1)    (* the old snapshot is kept *)
                                   else c_take s1
                       | None => c_take s1
                       end in
        c_post s2
  end.

Definition c_run (relabel : bool) (s : cstate) (evs : list cevent) : cstate := fold_left (c_step relabel) evs s.
