(* C11 model: src/ansi.go restated (nextAnsiEscapeSequence with its fast pre-scan,
   matchControlSequence, matchOperatingSystemCommand, the backspace rule;
   parseAnsiCode; interpretCode; extractColor).  Same loops, same index tests;
   every s[i] is a checked [get], every s[a:b] a checked [slice].  No proofs here.
   utf8.DecodeRuneInString / DecodeLastRuneInString / RuneCountInString are
   modelled by their documented meaning (AnsiSpec.rune_len, last_rune_len below). *)
From Fzf Require Import Prelude AnsiSpec.
Open Scope Z_scope.

Definition slice (s : str) (a b : nat) : res str :=
  if Nat.leb a b && Nat.leb b (length s) then Ok (firstn (b - a) (skipn a s)) else Err OutOfRange.

(* ---------- unicode/utf8 ---------- *)
(* utf8.RuneStart(b) = b&0xC0 != 0x80, for a byte 0..255: not a continuation byte *)
Definition rune_start (c : Z) : bool := negb (in_rng 128 191 c).

(* utf8.DecodeLastRuneInString(s): size only.  [rp] = s reversed (rp = s[end-1] :: s[end-2] :: ...).
     start := end-1; if s[start] < RuneSelf { return 1 }
     lim := max(0, end-UTFMax)
     for start--; start >= lim; start-- { if RuneStart(s[start]) { break } }
     if start < lim { start = lim }
     r, size := DecodeRuneInString(s[start:end]); if start+size != end { return RuneError, 1 }
   The loop looks at no more than three bytes; it is written out. [w] = s[start:end]. *)
Definition last_rune_len (rp : str) : nat :=
  match rp with
  | [] => 0%nat
  | c :: back =>
    if c <? 128 then 1%nat
    else
      let w := match back with
               | [] => [c]
               | x1 :: back1 =>
                 if rune_start x1 then [x1; c]
                 else match back1 with
                      | [] => [x1; c]
                      | x2 :: back2 =>
                        if rune_start x2 then [x2; x1; c]
                        else match back2 with
                             | [] => [x2; x1; c]
                             | x3 :: _ => [x3; x2; x1; c]
                             end
                      end
               end in
      if Nat.eqb (rune_len w) (length w) then rune_len w else 1%nat
  end.

(* ---------- matchControlSequence(s): s = text from the ESC on ---------- *)
Fixpoint mcs_loop (r : str) (i : nat) : option nat :=      (* r = s[i:] *)
  match r with
  | [] => None
  | c :: r' =>
    if is_digit c || (c =? 59) || (c =? 58) || (c =? 63) then mcs_loop r' (S i)
    else if in_rng 97 122 c || in_rng 65 90 c || (c =? 64) then Some (S i)
    else None
  end.
Definition match_control_sequence (s : str) : option nat := mcs_loop (skipn 2 s) 2.

(* ---------- matchOperatingSystemCommand(s, start) ---------- *)
Fixpoint skip_print (r : str) (i : nat) : nat :=           (* for ; i < len(s) && isPrint(s[i]); i++ *)
  match r with
  | c :: r' => if is_print c then skip_print r' (S i) else i
  | [] => i
  end.
Definition match_osc (s : str) (start : nat) : res (option nat) :=
  let i := skip_print (skipn start s) start in
  let n := length s in
  do r1 <-
    (if Nat.ltb i n then
       do c <- get s i;
       if c =? BEL then Ok (Some (S i))
       else if c =? ESC then
         if Nat.ltb i (n - 1) then
           do c1 <- get s (S i);
           if c1 =? 92 then Ok (Some (S (S i))) else Ok None
         else Ok None
       else Ok None
     else Ok None);
  match r1 with
  | Some k => Ok (Some k)
  | None =>
    if Nat.ltb i n then
      do pre <- slice s 0 (S i);
      if str_eqb pre [ESC; 93; 56; 59; 59; ESC] then Ok (Some (S i)) else Ok None
    else Ok None
  end.

Fixpoint skip_digits (r : str) (j : nat) : nat :=          (* for ; i+j < len(s) && isNumeric(s[i+j]); j++ *)
  match r with
  | c :: r' => if is_digit c then skip_digits r' (S j) else j
  | [] => j
  end.

(* case '\x1b' of the main loop, in its three attempts; t = s[i:], result = length of the match from i *)
Definition esc_csi (t : str) : res (option nat) :=      (* if i+2 < len(s) && isCtrlSeqStart(s[i+1]) *)
  if Nat.ltb 2 (length t) then
    do c1 <- get t 1;
    if is_intro c1 then Ok (match_control_sequence t) else Ok None
  else Ok None.

Definition esc_osc (t : str) : res (option nat) :=      (* if i+5 < len(s) && s[i+1] == ']' *)
  let n := length t in
  if Nat.ltb 5 n then
    do c1 <- get t 1;
    if c1 =? 93 then
      let j := skip_digits (skipn 2 t) 2 in
      if Nat.ltb 2 j && Nat.ltb (j + 1) n then
        do cj <- get t j;
        if (cj =? 59) || (cj =? 58) then
          do cp <- get t (j + 1);
          if is_print cp then match_osc t (j + 2) else Ok None
        else Ok None
      else Ok None
    else Ok None
  else Ok None.

Definition esc_two (t : str) : res (option nat) :=      (* if i+1 < len(s) && s[i+1] != '\n' *)
  if Nat.ltb 1 (length t) then
    do c1 <- get t 1;
    if negb (c1 =? LF) then
      if c1 <? 128 then Ok (Some 2%nat)
      else Ok (Some (S (rune_len (skipn 1 t))))
    else Ok None
  else Ok None.

Definition esc_case (t : str) : res (option nat) :=
  do r1 <- esc_csi t;
  match r1 with
  | Some j => Ok (Some j)
  | None =>
    do r2 <- esc_osc t;
    match r2 with
    | Some k => Ok (Some k)
    | None => esc_two t
    end
  end.

(* Loop: — rp = s[:i] reversed, t = s[i:], i *)
Fixpoint scan_loop (rp : str) (t : str) (i : nat) : res (option (nat * nat)) :=
  match t with
  | [] => Ok None
  | c :: t' =>
    if c =? BS then
      match rp with
      | p :: _ =>                                   (* i > 0 *)
        if negb (p =? LF) then
          if p <? 128 then Ok (Some ((i - 1)%nat, S i))
          else Ok (Some ((i - last_rune_len rp)%nat, S i))
        else scan_loop (c :: rp) t' (S i)
      | [] => scan_loop (c :: rp) t' (S i)
      end
    else if c =? ESC then
      do r <- esc_case t;
      match r with
      | Some k => Ok (Some (i, (i + k)%nat))
      | None => scan_loop (c :: rp) t' (S i)
      end
    else if (c =? SO) || (c =? SI) then Ok (Some (i, S i))
    else scan_loop (c :: rp) t' (S i)
  end.

(* the fast pre-scan: first i with s[i] in {SO, SI, ESC, BS} *)
Fixpoint prescan (rp : str) (t : str) (i : nat) : option (str * str * nat) :=
  match t with
  | [] => None
  | c :: t' =>
    if (c =? SO) || (c =? SI) || (c =? ESC) || (c =? BS) then Some (rp, t, i)
    else prescan (c :: rp) t' (S i)
  end.

Definition next_ansi (s : str) : res (option (nat * nat)) :=
  match prescan [] s 0 with
  | None => Ok None
  | Some (rp, t, i) => scan_loop rp t i
  end.

(* ---------- ansiState ---------- *)
Record url := mkUrl { u_uri : str; u_params : str }.
Record astate := mkA { fg : Z; bg : Z; attr : Z; lbg : Z; aurl : option url }.

Definition colored (s : astate) : bool :=
  negb (fg s =? -1) || negb (bg s =? -1) || (0 <? attr s) || (0 <=? lbg s)
  || match aurl s with Some _ => true | None => false end.

(* s.url == t.url compares POINTERS.  interpret_code reports whether it allocated a new url
   (fresh) ; an inherited pointer is equal to the previous one, a fresh one never is. *)
Definition url_nil (s : astate) : bool := match aurl s with None => true | Some _ => false end.
Definition st_equals (s : astate) (fresh : bool) (t : option astate) : bool :=
  match t with
  | None => negb (colored s)
  | Some t => (fg s =? fg t) && (bg s =? bg t) && (attr s =? attr t) && (lbg s =? lbg t)
              && negb fresh && Bool.eqb (url_nil s) (url_nil t)
  end.

(* ---------- integer conversions ---------- *)
Definition wrap64 (z : Z) : Z := (z + 9223372036854775808) mod 18446744073709551616 - 9223372036854775808.
Definition wrap32 (z : Z) : Z := (z + 2147483648) mod 4294967296 - 2147483648.

(* ---------- parseAnsiCode ---------- *)
Fixpoint index_byte (c : Z) (s : str) (i : nat) : option nat :=
  match s with
  | [] => None
  | x :: r => if x =? c then Some i else index_byte c r (S i)
  end.

Fixpoint atoi_loop (s : str) (code : Z) : Z :=
  match s with
  | [] => code
  | ch :: r =>
    let d := (ch - 48) mod 256 in                  (* ch -= '0' on uint8 *)
    if 9 <? d then -1 else atoi_loop r (wrap64 (code * 10 + d))
  end.

Definition parse_ansi_code (s : str) : res (Z * str) :=
  let i := match index_byte 59 s 0 with Some i => Some i | None => index_byte 58 s 0 end in
  do sr <- match i with
           | Some i => do rem <- slice s (S i) (length s); do hd <- slice s 0 i; Ok (hd, rem)
           | None => Ok (s, [])
           end;
  let '(s1, remaining) := sr in
  match s1 with
  | [] => Ok (-1, remaining)
  | _ => Ok (atoi_loop s1 0, remaining)
  end.

(* ---------- interpretCode ---------- *)
Definition has_suffix (s suf : str) : bool :=
  Nat.leb (length suf) (length s) && str_eqb (skipn (length s - length suf) s) suf.
Definition has_prefix (s pre : str) : bool :=
  Nat.leb (length pre) (length s) && str_eqb (firstn (length pre) s) pre.

Record istate := mkI { i_fg : Z; i_bg : Z; i_attr : Z; i_256 : Z; i_ptr_bg : bool; i_count : nat }.

Definition set_ptr (st : istate) (v : Z) : istate :=
  if i_ptr_bg st then mkI (i_fg st) v (i_attr st) (i_256 st) (i_ptr_bg st) (i_count st)
  else mkI v (i_bg st) (i_attr st) (i_256 st) (i_ptr_bg st) (i_count st).
Definition get_ptr (st : istate) : Z := if i_ptr_bg st then i_bg st else i_fg st.
Definition set_256 (st : istate) (v : Z) : istate := mkI (i_fg st) (i_bg st) (i_attr st) v (i_ptr_bg st) (i_count st).
Definition set_attr (st : istate) (v : Z) : istate := mkI (i_fg st) (i_bg st) v (i_256 st) (i_ptr_bg st) (i_count st).
Definition set_fg (st : istate) (v : Z) : istate := mkI v (i_bg st) (i_attr st) (i_256 st) (i_ptr_bg st) (i_count st).
Definition set_bg (st : istate) (v : Z) : istate := mkI (i_fg st) v (i_attr st) (i_256 st) (i_ptr_bg st) (i_count st).

Definition A_BOLD := 1. Definition A_DIM := 2. Definition A_ITALIC := 4. Definition A_UNDERLINE := 8.
Definition A_BLINK := 16. Definition A_REVERSE := 64. Definition A_STRIKE := 128.

Definition step_num (st : istate) (num : Z) : istate :=
  let st := mkI (i_fg st) (i_bg st) (i_attr st) (i_256 st) (i_ptr_bg st) (S (i_count st)) in
  let s := i_256 st in
  if s =? 0 then
    if num =? 38 then mkI (i_fg st) (i_bg st) (i_attr st) 1 false (i_count st)
    else if num =? 48 then mkI (i_fg st) (i_bg st) (i_attr st) 1 true (i_count st)
    else if num =? 39 then set_fg st (-1)
    else if num =? 49 then set_bg st (-1)
    else if num =? 1 then set_attr st (Z.lor (i_attr st) A_BOLD)
    else if num =? 2 then set_attr st (Z.lor (i_attr st) A_DIM)
    else if num =? 3 then set_attr st (Z.lor (i_attr st) A_ITALIC)
    else if num =? 4 then set_attr st (Z.lor (i_attr st) A_UNDERLINE)
    else if num =? 5 then set_attr st (Z.lor (i_attr st) A_BLINK)
    else if num =? 7 then set_attr st (Z.lor (i_attr st) A_REVERSE)
    else if num =? 9 then set_attr st (Z.lor (i_attr st) A_STRIKE)
    else if num =? 22 then set_attr st (Z.ldiff (Z.ldiff (i_attr st) A_BOLD) A_DIM)
    else if num =? 23 then set_attr st (Z.ldiff (i_attr st) A_ITALIC)
    else if num =? 24 then set_attr st (Z.ldiff (i_attr st) A_UNDERLINE)
    else if num =? 25 then set_attr st (Z.ldiff (i_attr st) A_BLINK)
    else if num =? 27 then set_attr st (Z.ldiff (i_attr st) A_REVERSE)
    else if num =? 29 then set_attr st (Z.ldiff (i_attr st) A_STRIKE)
    else if num =? 0 then mkI (-1) (-1) 0 0 (i_ptr_bg st) (i_count st)
    else if in_rng 30 37 num then set_fg st (num - 30)
    else if in_rng 40 47 num then set_bg st (num - 40)
    else if in_rng 90 97 num then set_fg st (num - 90 + 8)
    else if in_rng 100 107 num then set_bg st (num - 100 + 8)
    else st
  else if s =? 1 then
    if num =? 2 then set_256 st 10
    else if num =? 5 then set_256 st 2
    else set_256 st 0
  else if s =? 2 then set_256 (set_ptr st (wrap32 num)) 0
  else if s =? 10 then set_256 (set_ptr st (Z.lor 16777216 (wrap32 (num * 65536)))) 11
  else if s =? 11 then set_256 (set_ptr st (Z.lor (get_ptr st) (wrap32 (num * 256)))) 12
  else if s =? 12 then set_256 (set_ptr st (Z.lor (get_ptr st) (wrap32 num))) 0
  else st.

Fixpoint sgr_loop (fuel : nat) (code : str) (st : istate) : res istate :=
  match code with
  | [] => Ok st
  | _ =>
    match fuel with
    | O => Err OutOfFuel
    | S fuel =>
      do nr <- parse_ansi_code code;
      let '(num, rest) := nr in
      sgr_loop fuel rest (if num =? -1 then st else step_num st num)
    end
  end.

Definition OSC8 : str := [ESC; 93; 56; 59].
Definition ST : str := [ESC; 92].

(* returns the new state and whether a new url object was allocated *)
Definition interpret_code (code : str) (prev : option astate) : res (astate * bool) :=
  let st0 := match prev with None => mkA (-1) (-1) 0 (-1) None | Some p => p end in
  let n := length code in
  do not_sgr <-
    (do c0 <- get code 0;
     if negb (c0 =? ESC) then Ok true else
     do c1 <- get code 1;
     if negb (c1 =? 91) then Ok true else
     do cl <- get code (n - 1);
     Ok (negb (cl =? 109)));
  if (not_sgr : bool) then
    let is0K := match prev with Some _ => has_suffix code [48; 75] | None => false end in
    if is0K then Ok (mkA (fg st0) (bg st0) (attr st0) (bg st0) (aurl st0), false)
    else if has_prefix code OSC8 && (has_suffix code ST || has_suffix code [BEL]) then
      let stlen := if has_suffix code [BEL] then 1%nat else 2%nat in
      do c4 <- (if Nat.eqb n (5 + stlen) then get code 4 else Ok 0);
      if Nat.eqb n (5 + stlen) && (c4 =? 59) then Ok (mkA (fg st0) (bg st0) (attr st0) (lbg st0) None, false)
      else
        do tl <- slice code 4 n;
        match index_byte 59 tl 0 with
        | Some pe =>
          do params <- slice code 4 (4 + pe);
          do uri <- slice code (5 + pe) (n - stlen);
          Ok (mkA (fg st0) (bg st0) (attr st0) (lbg st0) (Some (mkUrl uri params)), true)
        | None => Ok (st0, false)
        end
    else Ok (st0, false)
  else if Nat.leb n 3 then Ok (mkA (-1) (-1) 0 (lbg st0) (aurl st0), false)
  else
    do body <- slice code 2 (n - 1);
    do st <- sgr_loop (S (length body)) body (mkI (fg st0) (bg st0) (attr st0) 0 false 0);
    let st := if Nat.eqb (i_count st) 0 then mkI (-1) (-1) 0 (i_256 st) (i_ptr_bg st) 0 else st in
    let st := if 0 <? i_256 st then set_ptr st (-1) else st in
    Ok (mkA (i_fg st) (i_bg st) (i_attr st) (lbg st0) (aurl st0), false).

(* ---------- extractColor (proc = nil) ---------- *)
Record aoff := mkOff { o_b : nat; o_e : nat; o_col : astate }.

(* offsets kept newest first *)
Definition update_last (offs : list aoff) (e : nat) : res (list aoff) :=
  match offs with
  | o :: r => Ok (mkOff (o_b o) e (o_col o) :: r)
  | [] => Err OutOfRange
  end.

Fixpoint ec_loop (fuel : nat) (rest : str) (state : option astate) (offs : list aoff)
         (out : str) (rc : nat) (any : bool)
  : res (str * option astate * list aoff * str * nat * bool) :=
  match rest with
  | [] => Ok (rest, state, offs, out, rc, any)             (* idx < len(str) fails *)
  | _ =>
    match fuel with
    | O => Err OutOfFuel
    | S fuel =>
      do m <- next_ansi rest;
      match m with
      | None => Ok (rest, state, offs, out, rc, any)
      | Some (a, b) =>
        do prev <- slice rest 0 a;
        do code <- slice rest a b;
        do rest' <- slice rest b (length rest);
        let rc := (rc + rune_count prev)%nat in
        let out := out ++ prev in
        do nf <- interpret_code code state;
        let '(ns, fresh) := nf in
        if negb (st_equals ns fresh state) then
          do offs1 <- match state with Some _ => update_last offs rc | None => Ok offs end;
          if colored ns then ec_loop fuel rest' (Some ns) (mkOff rc rc ns :: offs1) out rc true
          else ec_loop fuel rest' None offs1 out rc true
        else ec_loop fuel rest' state offs out rc true
      end
    end
  end.

Definition extract_color (s : str) (state : option astate)
  : res (str * option (list aoff) * option astate) :=
  let offs0 := match state with Some st => [mkOff 0 0 st] | None => [] end in
  do r <- ec_loop (S (length s)) s state offs0 [] 0%nat false;
  let '(rest, state, offs, out, rc, any) := r in
  let trimmed := if (any : bool) then out ++ rest else s in
  match offs with
  | [] => Ok (trimmed, None, state)
  | _ =>
    do offs' <- (match state with
                 | Some _ => update_last offs (rc + rune_count rest)%nat
                 | None => Ok offs
                 end);
    Ok (trimmed, Some (rev offs'), state)
  end.
