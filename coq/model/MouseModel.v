(* C14, mouse histories: executable restatement of the part of the actMouse handler of Terminal.Loop (src/terminal.go)
   that ends in `prevLine := t.prevLines[my]`: the state kept across the events of a gesture (wasDown, barDragging),
   the reset on release, the "Ignored" guard, the translation of coordinates per layout, the scrollbar-dragging branch.
   The branches before it (wheel, preview dragging, preview scrollbar, preview border, input window, header windows)
   all leave the handler; they are represented by the event's e_taken flag.  No proofs here. *)
From Fzf Require Import Prelude MouseSpec.
Open Scope Z_scope.

Record mst := mkMst { s_wasDown : bool; s_bar : bool }.
Definition mst0 := mkMst false false.

Definition enclose (g : geom) (y x : Z) : bool :=
  (g_left g <=? x) && (x <? g_left g + g_w g) && (g_top g <=? y) && (y <? g_top g + g_h g).

(* my after "Translate coordinates" *)
Definition translate (g : geom) (my : Z) : Z :=
  let h := g_h g in
  if g_layout g =? 0 then h - my - 1
  else if g_layout g =? 2 then (if my <? h - g_min g then my + g_min g else h - my - 1)
  else my.

Definition mouse_step (g : geom) (st : mst) (e : mev) : mst * outcome :=
  let click := negb (s_wasDown st) && e_down e in
  let bar0 := if e_down e then s_bar st else false in          (* if !me.Down { barDragging = false ... } *)
  let st1 := mkMst (e_down e) bar0 in
  if e_taken e then (st1, Stop)
  else if negb (enclose g (e_y e) (e_x e)) && negb bar0 then (st1, Stop)   (* Ignored *)
  else
    let mx := e_x e - g_left g in
    let my := translate g (e_y e - g_top g) in
    let bar := e_down e && (bar0 || (click && (g_min g <=? my) && (mx =? g_w g - 1))) in
    if bar then (mkMst (e_down e) bar, Stop)                   (* scrollbar dragging: `break`, scrollbar or not *)
    else (mkMst (e_down e) bar, Row my).

Fixpoint mouse_run (g : geom) (st : mst) (es : list mev) : list outcome :=
  match es with
  | [] => []
  | e :: r => let '(st', o) := mouse_step g st e in o :: mouse_run g st' r
  end.

(* the variant that leaves the scrollbar branch only when a scrollbar exists (what a careless edit produces):
   used to show that the `break` is needed *)
Definition mouse_step_fallthrough (g : geom) (st : mst) (e : mev) : mst * outcome :=
  let click := negb (s_wasDown st) && e_down e in
  let bar0 := if e_down e then s_bar st else false in
  let st1 := mkMst (e_down e) bar0 in
  if e_taken e then (st1, Stop)
  else if negb (enclose g (e_y e) (e_x e)) && negb bar0 then (st1, Stop)
  else
    let mx := e_x e - g_left g in
    let my := translate g (e_y e - g_top g) in
    let bar := e_down e && (bar0 || (click && (g_min g <=? my) && (mx =? g_w g - 1))) in
    if bar && (0 <? e_barlen e) then (mkMst (e_down e) bar, Stop)
    else (mkMst (e_down e) bar, Row my).

Fixpoint mouse_run_fallthrough (g : geom) (st : mst) (es : list mev) : list outcome :=
  match es with
  | [] => []
  | e :: r => let '(st', o) := mouse_step_fallthrough g st e in o :: mouse_run_fallthrough g st' r
  end.
