(* C13 model of src/chunklist.go with an explicit chunk STORE.

   A Go *Chunk is a mutable cell; here a cell is addressed by its id = position in an
   append-only store, and holds the first `count` items of the Go array (count = length).
   ChunkList.chunks is a list of ids.  A snapshot is a list of ids too: whoever holds it
   reads the cells through the CURRENT store, exactly like the matcher dereferences
   []*Chunk while the reader keeps pushing.  Sharing is therefore explicit: if Snapshot
   did not duplicate the last cell, a later Push would change what an old snapshot sees. *)
From Fzf Require Import Prelude.

Definition chunk_size : nat := 100.          (* constants.go: chunkSize *)

Section ChunkStore.
  Variable item : Type.

  Definition cell := list item.
  Definition store := list cell.
  Record clist := mkCL { cl_store : store; cl_chunks : list nat }.
  Definition cl_empty : clist := mkCL [] [].

  Definition alloc (s : store) (c : cell) : store * nat := (s ++ [c], length s).

  Fixpoint deref_all (s : store) (ids : list nat) : res (list cell) :=
    match ids with
    | [] => Ok []
    | i :: r => do c <- get s i; do cs <- deref_all s r; Ok (c :: cs)
    end.

  Fixpoint last_of {A} (a : A) (l : list A) : A := match l with [] => a | b :: r => last_of b r end.
  Definition last_opt {A} (l : list A) : option A := match l with [] => None | a :: r => Some (last_of a r) end.

  (* CountItems(cs): first + chunkSize*(len-2) + last *)
  Definition count_items (lens : list nat) : nat :=
    match lens with
    | [] => 0
    | [a] => a
    | a :: b :: r => a + chunk_size * length r + last_of b r
    end.

  (* ChunkList.Push; `accepted = false` is the ItemBuilder returning false
     (the chunk is still allocated when the last one is full or missing) *)
  Definition push_gen (cl : clist) (x : option item) : res clist :=
    let add (c : cell) := match x with Some v => c ++ [v] | None => c end in
    let fresh := let (s', id) := alloc (cl_store cl) (add []) in Ok (mkCL s' (cl_chunks cl ++ [id])) in
    match last_opt (cl_chunks cl) with
    | None => fresh
    | Some id =>
        do c <- get (cl_store cl) id;
        if Nat.eqb (length c) chunk_size then fresh
        else do s' <- set_nth (cl_store cl) id (add c); Ok (mkCL s' (cl_chunks cl))
    end.
  Definition push (cl : clist) (x : item) : res clist := push_gen cl (Some x).

  Definition clear (cl : clist) : clist := mkCL (cl_store cl) [].

  (* first loop of Snapshot under --tail: how many chunks to keep, scanning from the end
     (left > 0 && i >= 0; left may go negative in Go, only its sign is ever tested) *)
  Fixpoint num_keep (left : nat) (rlens : list nat) : nat :=
    match left, rlens with
    | O, _ => O
    | _, [] => O
    | _, c :: r => S (num_keep (left - c) r)
    end.

  (* second loop, over the kept chunks from the end: the first chunk holding more than
     `left` items is replaced by a fresh cell with its last `left` items; then stop *)
  Fixpoint trim_rev (s : store) (left : nat) (rids : list nat) : res (store * list nat * list nat) :=
    match rids with
    | [] => Ok (s, [], [])
    | id :: r =>
        do c <- get s id;
        if Nat.ltb left (length c) then
          let (s', nid) := alloc s (skipn (length c - left) c) in Ok (s', nid :: r, [id])
        else
          do x <- trim_rev s (left - length c) r;
          let '(s', r', ret) := x in Ok (s', id :: r', ret)
    end.

  Definition dup (s : store) (id : nat) : res (store * nat) :=
    do c <- get s id; Ok (alloc s c).

  Record snap_result := mkSnap {
    sn_cl : clist; sn_ids : list nat; sn_count : nat; sn_changed : bool;
    sn_retired : list nat   (* chunks handed to ChunkCache.retire *)
  }.

  (* trimming under --tail: the chunks that fall out are retired, the first kept one may be cut *)
  Definition snap_trim (cl : clist) (tail : nat) : res (clist * bool * list nat) :=
    do cells <- deref_all (cl_store cl) (cl_chunks cl);
    let lens := map (@length item) cells in
    if (Nat.ltb 0 tail && Nat.ltb tail (count_items lens))%bool then
      let k := num_keep tail (rev lens) in
      let n := length (cl_chunks cl) in
      let dropped := firstn (n - k) (cl_chunks cl) in
      let kept := skipn (n - k) (cl_chunks cl) in
      do x <- trim_rev (cl_store cl) tail (rev kept);
      let '(s', rkept, ret) := x in
      Ok (mkCL s' (rev rkept), true, dropped ++ ret)
    else Ok (cl, false, []).

  (* "Duplicate the first and the last chunk": the first only under tail and when there are two or more *)
  Definition snap_dup_first (s : store) (ids : list nat) (tail : nat) : res (store * list nat) :=
    match ids with
    | first :: (_ :: _) as rest =>
        if Nat.ltb 0 tail then do d <- dup s first; Ok (fst d, snd d :: rest)
        else Ok (s, ids)
    | _ => Ok (s, ids)
    end.
  Definition snap_dup_last (s : store) (ids : list nat) : res (store * list nat) :=
    match rev ids with
    | [] => Ok (s, ids)
    | lastid :: rfront => do d <- dup s lastid; Ok (fst d, rev (snd d :: rfront))
    end.

  Definition snapshot (cl : clist) (tail : nat) : res snap_result :=
    do t <- snap_trim cl tail;
    let '(cl1, changed, retired) := t in
    do r1 <- snap_dup_first (cl_store cl1) (cl_chunks cl1) tail;   (* ret := copy of cl.chunks *)
    do r2 <- snap_dup_last (fst r1) (snd r1);
    do cells2 <- deref_all (fst r2) (snd r2);
    Ok (mkSnap (mkCL (fst r2) (cl_chunks cl1)) (snd r2) (count_items (map (@length item) cells2)) changed retired).

  (* ---- operation sequences ---- *)
  Inductive cop := CPush (x : item) | CReject | CClear | CSnap (tail : nat).

  (* one step; snapshots taken are collected (newest first) *)
  Definition cstep (st : clist * list snap_result) (o : cop) : res (clist * list snap_result) :=
    let (cl, snaps) := st in
    match o with
    | CPush x => do cl' <- push cl x; Ok (cl', snaps)
    | CReject => do cl' <- push_gen cl None; Ok (cl', snaps)
    | CClear => Ok (clear cl, snaps)
    | CSnap t => do r <- snapshot cl t; Ok (sn_cl r, r :: snaps)
    end.

  Fixpoint crun (st : clist * list snap_result) (ops : list cop) : res (clist * list snap_result) :=
    match ops with
    | [] => Ok st
    | o :: r => do st' <- cstep st o; crun st' r
    end.

  (* the list alone *)
  Definition cstep1 (cl : clist) (o : cop) : res clist :=
    do st <- cstep (cl, []) o; Ok (fst st).
  Fixpoint crun1 (cl : clist) (ops : list cop) : res clist :=
    match ops with
    | [] => Ok cl
    | o :: r => do cl' <- cstep1 cl o; crun1 cl' r
    end.
End ChunkStore.

Arguments mkCL {item} cl_store cl_chunks.
Arguments cl_store {item} c.
Arguments cl_chunks {item} c.
Arguments cl_empty {item}.
Arguments deref_all {item} s ids.
Arguments push {item} cl x.
Arguments push_gen {item} cl x.
Arguments clear {item} cl.
Arguments snapshot {item} cl tail.
Arguments snap_trim {item} cl tail.
Arguments snap_dup_first {item} s ids tail.
Arguments snap_dup_last {item} s ids.
Arguments sn_cl {item} s.
Arguments sn_ids {item} s.
Arguments sn_count {item} s.
Arguments sn_changed {item} s.
Arguments sn_retired {item} s.
Arguments CPush {item} x.
Arguments CReject {item}.
Arguments CClear {item}.
Arguments CSnap {item} tail.
Arguments cstep {item} st o.
Arguments crun {item} st ops.
Arguments cstep1 {item} cl o.
Arguments crun1 {item} cl ops.
Arguments trim_rev {item} s left rids.
Arguments dup {item} s id.
Arguments alloc {item} s c.
